import ast, z3, time
from spike import *

def series_ok(st, m, names):
    """0 <= time < len(series) for each series list field of market m"""
    t = st.read(m, "time").term; cs = [t >= 0]
    for n in names:
        l = st.read(m, n); cs.append(z3.Select(st.llen(), l.term) > t)
    return cs

def case_update_market_price():
    m = sym_obj("Market", "m")
    def pre(st):
        cs = series_ok(st, m, ["_mid_prices", "_market_prices", "_last_executed_prices"])
        # distinct list objects (no aliasing between the three series)
        a, b, c = (st.read(m, n).term for n in ["_mid_prices", "_market_prices", "_last_executed_prices"])
        cs += [a != b, b != c, a != c]
        for bk in ("buy_order_book", "sell_order_book"):
            q = st.read(st.read(m, bk), "priority_queue"); cs.append(z3.Select(st.llen(), q.term) >= 0)
        return cs
    ex, outs = run_function("Market._update_market_price", {"self": m}, pre=pre)
    st0 = State(); [st0.assume(c) for c in pre(st0)]
    goals = []
    for st, kind, val in outs + [(s, k, v) for s, k, v in ex.escaped]:
        if kind == "raise": goals.append(("no-raise:" + str(val), st.pc, z3.BoolVal(False))); continue
        t = st0.read(m, "time")
        def cell(s, name): return s.list_get(s.read(m, name), t)
        s_old = st0.copy(); s_new = st.copy(); s_new.obl = []; s_old.obl = []
        def best(s, bk):
            q = s.read(s.read(m, bk), "priority_queue"); n = z3.Select(s.llen(), q.term)
            top = s.list_get(q, mkint(0)); p = s.read(V(("ref", "Order"), top.term), "price")
            return n > 0, p
        nb, pb = best(s_old, "buy_order_book"); ns, ps = best(s_old, "sell_order_book")
        both = z3.And(nb, ns, z3.Not(pb.none), z3.Not(ps.none))
        mid_new = cell(s_new, "_mid_prices"); mp_new = cell(s_new, "_market_prices"); mp_old = cell(s_old, "_market_prices")
        le = cell(s_old, "_last_executed_prices"); running = s_old.read(m, "_is_running").term
        goals.append(("C08 mid", st.pc, z3.If(both, z3.And(z3.Not(mid_new.none), mid_new.term == (ps.term + pb.term) / 2), mid_new.none)))
        exp_none = z3.If(running, z3.If(z3.Not(le.none), False, z3.If(z3.Not(mid_new.none), False, mp_old.none)), mp_old.none)
        exp_val = z3.If(running, z3.If(z3.Not(le.none), le.term, z3.If(z3.Not(mid_new.none), mid_new.term, mp_old.term)), mp_old.term)
        goals.append(("C08 market price", st.pc, z3.And(mp_new.none == exp_none, z3.Implies(z3.Not(exp_none), mp_new.term == exp_val))))
        goals.append(("C08 last unchanged", st.pc, z3.And(cell(s_new, "_last_executed_prices").none == le.none)))
    return discharge("Market._update_market_price (C08 post)", outs[0][0].obl if outs else [], goals), len(outs)

def case_limited_price():
    rule = sym_obj("PriceLimitRule", "rule"); order = sym_obj("Order", "o"); market = sym_obj("Market", "mk")
    def pre(st):
        cs = series_ok(st, market, ["_market_prices"])
        mp = st.read(market, "_market_prices"); s2 = st.copy(); p0 = s2.list_get(mp, mkint(0))
        cs += [z3.Not(p0.none), p0.term > 0, st.read(rule, "trigger_change_rate").term >= 0]
        return cs
    ex, outs = run_function("PriceLimitRule.get_limited_price", {"self": rule, "order": order, "market": market}, pre=pre)
    goals = []; allouts = outs + ex.escaped
    st0 = State(); [st0.assume(c) for c in pre(st0)]
    p0 = st0.copy().list_get(st0.read(market, "_market_prices"), mkint(0)).term; r = st0.read(rule, "trigger_change_rate").term
    op = st0.read(order, "price")
    is_target = z3.Function("in_values", z3.IntSort(), z3.IntSort(), z3.BoolSort())(st0.read(rule, "target_markets").term, market.term)
    for st, kind, val in allouts:
        if kind == "raise":
            goals.append((f"raises only for non-target ({val})", st.pc, z3.Not(is_target))); continue
        goals.append(("target", st.pc, is_target))
        if val.ty[0] == "none": goals.append(("None only for market order", st.pc, op.none)); continue
        vnone = val.none if val.none is not None else z3.BoolVal(False)
        goals.append(("band", st.pc, z3.And(vnone == op.none, z3.Implies(z3.Not(op.none), z3.And(p0 * (1 - r) <= val.term, val.term <= p0 * (1 + r))))))
        goals.append(("inside unchanged", st.pc, z3.Implies(z3.And(z3.Not(op.none), p0 * (1 - r) <= op.term, op.term <= p0 * (1 + r)), val.term == op.term)))
    obl = [o for o in (outs[0][0].obl if outs else []) if o[1]]   # drop obligations raised while evaluating the spec itself (empty pc)
    return discharge("PriceLimitRule.get_limited_price (C15 band)", obl, goals), len(allouts)

def case_price_limit_hook():
    rule = sym_obj("PriceLimitRule", "rule"); order = sym_obj("Order", "o"); sim = sym_obj("Simulator", "sim")
    def pre(st):
        ex0 = Exec({}); id2 = st.read(sim, "id2market"); kd, kv = ex0.dict_arrays(st, id2.ty)
        mid = st.read(order, "market_id").term
        mk = V(("ref", "Market"), z3.Select(z3.Select(st.heap[kv], id2.term), mid))
        cs = series_ok(st, mk, ["_market_prices"]) + [z3.Select(z3.Select(st.heap[kd], id2.term), mid)]
        s2 = st.copy(); s2.obl = []; p0 = s2.list_get(st.read(mk, "_market_prices"), mkint(0)); cs += [z3.Not(p0.none), p0.term > 0]
        return cs
    ex, outs = run_function("PriceLimitRule.hooked_before_order", {"self": rule, "simulator": sim, "order": order}, pre=pre)
    goals = []
    for st, kind, val in outs + ex.escaped:
        if kind == "raise": goals.append((f"C15 no-raise#non-target ({val})", st.pc + [], z3.BoolVal(False)))
    obl = [o for o in (outs[0][0].obl if outs else []) if o[0] not in ("key-present", "index-in-range")]
    return discharge("PriceLimitRule.hooked_before_order (C15 non-target must not raise)  [expected RED]", [], goals[:3]), len(outs) + len(ex.escaped)

def case_session_setup():
    s = sym_obj("Session", "s"); settings = V(("dict", ("str",), ("dyn",)), z3.Int("settings"))
    ex, outs = run_function("Session.setup", {"self": s, "settings": settings})
    goals = []
    st0 = State()
    def has(k): return ex.dict_has(st0, settings, V(("str",), z3.StringVal(k)))
    def get(k):
        kd, kv = ex.dict_arrays(st0, settings.ty); return z3.Select(z3.Select(st0.heap[kv], settings.term), z3.StringVal(k))
    for st, kind, val in outs + ex.escaped:
        if kind == "raise": continue
        rate = st.read(s, "high_frequency_submission_rate").term
        cap = st.read(s, "max_high_frequency_orders").term
        old = z3.If(dyn_is_int(get("hifreqSubmitRate")), z3.ToReal(dyn_int(get("hifreqSubmitRate"))), dyn_real(get("hifreqSubmitRate")))
        goals.append(("C18 legacy hifreqSubmitRate sets the rate", st.pc + [has("hifreqSubmitRate"), z3.Not(has("highFrequencySubmitRate"))], rate == old))
        goals.append(("C18 legacy maxHifreqOrders sets the cap", st.pc + [has("maxHifreqOrders"), z3.Not(has("maxHighFrequencyOrders")), z3.Not(has("hifreqSubmitRate"))],
                      cap == dyn_int(get("maxHifreqOrders"))))
        goals.append(("iteration steps", st.pc, st.read(s, "iteration_steps").term == dyn_int(get("iterationSteps"))))
    return discharge("Session.setup (C18 legacy keys)  [expected RED on hifreqSubmitRate]", [], goals), len(outs)

def case_update_agents_body():
    fn, _ = SRC.funcs["Simulator._update_agents_for_execution"]
    loop = [n for n in fn.body if isinstance(n, ast.For)][0]
    sim = sym_obj("Simulator", "sim"); log = sym_obj("ExecutionLog", "log")
    ex = Exec({}); ex.loop_specs = {}; ex.current = "body"; ex.escaped = []
    st = State(env={"self": sim, "log": log})
    outs = ex.run(loop.body, st)
    goals = []
    st0 = State()
    id2 = st0.read(sim, "id2agent")
    kd, kv = ex.dict_arrays(st0, id2.ty)
    b = z3.Select(z3.Select(st0.heap[kv], id2.term), st0.read(log, "buy_agent_id").term)
    s_ = z3.Select(z3.Select(st0.heap[kv], id2.term), st0.read(log, "sell_agent_id").term)
    p, v = st0.read(log, "price").term, st0.read(log, "volume").term
    for stt, kind, val in outs:
        cash0 = st0.arr("Agent", "cash_amount", ("real",))[1]; cash1 = stt.arr("Agent", "cash_amount", ("real",))[1]
        a = z3.Int("a")
        goals.append(("C05 cash delta", stt.pc, z3.And(
            z3.Implies(b != s_, z3.And(cash1[b] == cash0[b] - p * v, cash1[s_] == cash0[s_] + p * v)),
            z3.Implies(b == s_, cash1[b] == cash0[b]),
            z3.ForAll([a], z3.Implies(z3.And(a != b, a != s_), cash1[a] == cash0[a])))))
        goals.append(("C05 pair conserves cash", stt.pc, z3.Implies(b != s_, cash1[b] + cash1[s_] == cash0[b] + cash0[s_])))
    obl = [o for o in outs[0][0].obl if o[0] != "key-present"]
    return discharge("Simulator._update_agents_for_execution loop body (C05 delta, frame, self-trade)", obl, goals), len(outs)

def case_mistake_shock():
    ev = sym_obj("OrderMistakeShock", "ev"); order = sym_obj("Order", "o"); sim = sym_obj("Simulator", "sim")
    def pre(st):
        mk = None
        return []
    ex, outs = run_function("OrderMistakeShock.hooked_before_order", {"self": ev, "simulator": sim, "order": order})
    st0 = State(); goals = []
    tgt = st0.read(st0.read(ev, "target_market"), "market_id").term
    for st, kind, val in outs + ex.escaped:
        if kind == "raise": continue
        same_market = st0.read(order, "market_id").term == tgt
        vol0, vol1 = st0.read(order, "volume").term, st.read(order, "volume").term
        goals.append(("C14 other markets' orders untouched", st.pc + [z3.Not(same_market)], vol1 == vol0))
        goals.append(("C14 fires at most once", st.pc + [st0.read(ev, "triggerd").term], vol1 == vol0))
        goals.append(("C14 override values", st.pc + [z3.Not(st0.read(ev, "triggerd").term), same_market],
                      z3.And(vol1 == st0.read(ev, "order_volume").term, st.read(order, "is_buy").term == (st0.read(ev, "price_change_rate").term > 0),
                             st.read(order, "kind").term == 1, st.read(ev, "triggerd").term)))
    return discharge("OrderMistakeShock.hooked_before_order (C14)  [expected RED on target]", [], goals), len(outs)

def guarded_singleton_loop(ex, s, st, d):
    """`for m in self.target_markets.values(): if m == market: BODY` -- summarised: BODY once with m := market if market in values, else skip.
    (needs its own soundness argument: other iterations are no-ops, repeated ones idempotent)"""
    out = []
    for s1, it in ex.ev(s.iter, st, d):
        mk = s1.env["market"]
        fnm = z3.Function("in_values", z3.IntSort(), z3.IntSort(), z3.BoolSort())
        sa = s1.copy(); sa.assume(fnm(it.term, mk.term)); sa.env[s.target.id] = mk
        out += ex.run(s.body, sa, d)
        sb = s1.copy(); sb.assume(z3.Not(fnm(it.term, mk.term))); out.append((sb, "fall", None))
    return out

def case_halt_resume():
    ev = sym_obj("TradingHaltRule", "ev"); market = sym_obj("Market", "mk"); sim = sym_obj("Simulator", "sim")
    fn, _ = SRC.funcs["TradingHaltRule.hooked_before_step_for_market"]
    loop = [n for n in ast.walk(fn) if isinstance(n, ast.For)][0]
    ex, outs = run_function("TradingHaltRule.hooked_before_step_for_market", {"self": ev, "simulator": sim, "market": market},
                            loop_specs={("TradingHaltRule.hooked_before_step_for_market", loop.lineno): guarded_singleton_loop})
    st0 = State(); goals = []
    cs = st0.read(sim, "current_session")
    sess = V(("ref", "Session"), cs.term)
    for st, kind, val in outs + ex.escaped:
        if kind == "raise": continue
        flag0, flag1 = st0.read(sess, "with_order_execution").term, st.read(sess, "with_order_execution").term
        never_halted = z3.And(st0.read(ev, "activation_count").term == 0, st0.read(ev, "halting_time_started").term == 0)
        goals.append(("C09 exec-gate: a rule that never halted does not switch execution on", st.pc + [never_halted, z3.Not(cs.none)], z3.Implies(z3.Not(flag0), z3.Not(flag1))))
    return discharge("TradingHaltRule.hooked_before_step_for_market (C09 gate)  [expected RED]", [], goals), len(outs)

def main():
    t0 = time.time()
    for c in (case_update_market_price, case_limited_price, case_price_limit_hook, case_session_setup, case_update_agents_body,
              case_mistake_shock, case_halt_resume):
        try:
            (ok, failed), npaths = c()
            print("      paths:", npaths)
        except Unsupported as e:
            print(f"[UNSUPPORTED] {c.__name__}: {e}")
        except Exception as e:
            import traceback; print(f"[ERROR] {c.__name__}: {type(e).__name__} {e}"); traceback.print_exc()
    print("total", round(time.time() - t0, 1), "s")

# ------------------------------------------------------------------ harder cases: contracts as callables, loops with invariants
SERIES = [("_market_prices", ("opt", ("real",))), ("_mid_prices", ("opt", ("real",))), ("_last_executed_prices", ("opt", ("real",))),
          ("_fundamental_prices", ("opt", ("real",))), ("_executed_volumes", ("int",)), ("_executed_total_prices", ("real",)),
          ("_n_buy_orders", ("int",)), ("_n_sell_orders", ("int",))]
_fr = itertools.count(1000)
def fresh_ref(st, hint):
    r = z3.Int(f"{hint}!{next(_fr)}")
    return r

def contract_set_time(ex, st, recv, pos, kw):
    # OrderBook._set_time(time): modifies the book only (its fields are havocked here coarsely: time), returns a fresh list of logs
    st.write(recv, "time", pos[0] if pos else kw["time"])
    lst = V(("list", ("ref", "ExpirationLog")), fresh_ref(st, "explogs"))
    st.assume(z3.Select(st.llen(), lst.term) >= 0)
    return [(st, lst)]
def contract_read_and_write(ex, st, recv, pos, kw):
    st.trace.append(("Write", recv)); return [(st, V(("none",)))]
def contract_fill_until(ex, st, recv, pos, kw):
    t = kw["time"].term if "time" in kw else pos[0].term
    olds = [st.read(recv, f).term for f, _ in SERIES]; news = []
    for f, ety in SERIES:
        old = st.read(recv, f)
        new = V(old.ty, fresh_ref(st, "ser_" + f))
        n0 = z3.Select(st.llen(), old.term); n1 = z3.Select(st.llen(), new.term)
        i = z3.Int("i_fill")
        k, a = st.lel(ety); cs = [n1 >= t + 1, n1 >= n0]
        same = z3.Select(z3.Select(a, new.term), i) == z3.Select(z3.Select(a, old.term), i)
        if ety[0] == "opt":
            kn, an = st.lel(ety, "none")
            same = z3.And(same, z3.Select(z3.Select(an, new.term), i) == z3.Select(z3.Select(an, old.term), i))
            cs.append(z3.ForAll([i], z3.Implies(z3.And(i >= n0, i < n1), z3.Select(z3.Select(an, new.term), i))))
        cs.append(z3.ForAll([i], z3.Implies(z3.And(0 <= i, i < n0), same)))
        for c in cs: st.assume(c)
        st.write(recv, f, new); news.append(new.term)
    st.assume(z3.Distinct(*news))                     # allocation: fresh refs are pairwise distinct ...
    for nw in news:
        for od in olds: st.assume(nw != od)           # ... and distinct from every reference that existed before
    return [(st, V(("none",)))]
def noeffect_foreach(ex, s, st, d):
    # for log in logs: log.read_and_write(...)  -- for-each fragment, body has no heap effect in this abstraction
    return [(st, "fall", None)]

def case_update_time_frame():
    m = sym_obj("Market", "m"); f = V(("real",), z3.Real("next_f"))
    fn, _ = SRC.funcs["Market._update_time"]
    loops = {("Market._update_time", n.lineno): noeffect_foreach for n in ast.walk(fn) if isinstance(n, ast.For)}
    contracts = {("OrderBook", "_set_time"): contract_set_time, ("Market", "_fill_until"): contract_fill_until,
                 ("Log", "read_and_write"): contract_read_and_write}
    def pre(st):
        cs = [st.read(m, "time").term >= -1]
        refs = [st.read(m, n).term for n, _ in SERIES]
        cs.append(z3.Distinct(*refs))
        for n, _ in SERIES: cs.append(z3.Select(st.llen(), st.read(m, n).term) >= 0)
        # all series at least as long as the clock says (slots 0..time exist), except before the first tick
        for n, _ in SERIES: cs.append(z3.Select(st.llen(), st.read(m, n).term) >= st.read(m, "time").term + 1)
        return cs
    ex, outs = run_function("Market._update_time", {"self": m, "next_fundamental_price": f}, contracts=contracts, loop_specs=loops, pre=pre)
    st0 = State(); [st0.assume(c) for c in pre(st0)]
    goals = []; t0 = st0.read(m, "time").term
    for st, kind, val in outs + ex.escaped:
        if kind == "raise": goals.append((f"no-raise {val}", st.pc, z3.BoolVal(False))); continue
        goals.append(("C06 clock +1", st.pc, st.read(m, "time").term == t0 + 1))
        for n, ety in SERIES:
            old, new = st0.read(m, n), st.read(m, n); i = z3.Int("i_frame")
            k0, a0 = st0.lel(ety); k1, a1 = st.lel(ety)
            same = z3.Select(z3.Select(st.heap[k1], new.term), i) == z3.Select(z3.Select(st0.heap[k0], old.term), i)
            if ety[0] == "opt":
                kn0, an0 = st0.lel(ety, "none"); kn1, an1 = st.lel(ety, "none")
                same = z3.And(z3.Select(z3.Select(st.heap[kn1], new.term), i) == z3.Select(z3.Select(st0.heap[kn0], old.term), i),
                              z3.Implies(z3.Not(z3.Select(z3.Select(st0.heap[kn0], old.term), i)), same))
            goals.append((f"C06 frame: past slots of {n} unchanged", st.pc, z3.ForAll([i], z3.Implies(z3.And(0 <= i, i <= t0), same))))
        fp = st.copy(); fp.obl = []; cell = fp.list_get(st.read(m, "_fundamental_prices"), V(("int",), t0 + 1))
        goals.append(("C06 new fundamental recorded", st.pc, z3.And(z3.Not(cell.none), cell.term == f.term)))
    obl = [o for o in (outs[0][0].obl if outs else []) if o[1]]
    return discharge("Market._update_time (C06 clock, frame on 8 series, recorded fundamental)", obl, goals), len(outs)

def case_index_loop():
    idx = sym_obj("IndexMarket", "ix"); tt = V(("int",), z3.Int("t"))
    W = z3.Function("W", z3.IntSort(), z3.RealSort()); S = z3.Function("S", z3.IntSort(), z3.IntSort())
    fn, _ = SRC.funcs["IndexMarket.compute_market_index"]
    loop = [n for n in fn.body if isinstance(n, ast.For)][0]
    def comp(st, i):
        lst = st.read(idx, "_components"); s2 = st.copy(); s2.obl = []
        return V(("ref", "Market"), s2.list_get(lst, V(("int",), i)).term)
    def price_of(st, c, t):
        s2 = st.copy(); s2.obl = []
        return s2.list_get(st.read(c, "_market_prices"), V(("int",), t))
    def wf_component(st, c, t):
        sh = st.read(c, "outstanding_shares"); p = price_of(st, c, t)
        return z3.And(z3.Not(sh.none), t <= st.read(c, "time").term, t >= 0, z3.Select(st.llen(), st.read(c, "_market_prices").term) > t, z3.Not(p.none))
    def loopspec(ex, s, st, d):
        out = []
        for s1, seq in ex.ev(s.iter, st, d):
            n = z3.Select(s1.llen(), seq.term)
            # init
            s1.oblige("inv-init W", to_real(s1.env["total_value"]) == W(0)); s1.oblige("inv-init S", s1.env["total_shares"].term == S(0))
            # step
            i = z3.FreshInt("i"); sb = s1.copy()
            sb.env["total_value"] = V(("real",), z3.FreshReal("tv")); sb.env["total_shares"] = V(("int",), z3.FreshInt("ts"))
            sb.assume(z3.And(0 <= i, i < n, sb.env["total_value"].term == W(i), sb.env["total_shares"].term == S(i)))
            c = comp(sb, i); sb.env[s.target.id] = c
            sb.assume(wf_component(sb, c, s1.env["time"].term))            # instance of the quantified precondition
            sh = sb.read(c, "outstanding_shares").term; p = price_of(sb, c, s1.env["time"].term).term
            sb.assume(z3.And(W(i + 1) == W(i) + p * z3.ToReal(sh), S(i + 1) == S(i) + sh))   # unfolding of the spec sums
            for s2, kind, val in ex.run(s.body, sb, d):
                if kind != "fall": out.append((s2, kind, val)); continue
                s2.oblige("inv-step W", to_real(s2.env["total_value"]) == W(i + 1)); s2.oblige("inv-step S", s2.env["total_shares"].term == S(i + 1))
            # exit
            se = s1.copy(); se.env["total_value"] = V(("real",), z3.FreshReal("tv")); se.env["total_shares"] = V(("int",), z3.FreshInt("ts"))
            se.assume(z3.And(se.env["total_value"].term == W(n), se.env["total_shares"].term == S(n)))
            se.env["__n"] = V(("int",), n)
            out.append((se, "fall", None))
        return out
    def pre(st):
        n = z3.Select(st.llen(), st.read(idx, "_components").term)
        return [W(0) == 0, S(0) == 0, n >= 1, S(n) != 0, tt.term >= 0]
    ex, outs = run_function("IndexMarket.compute_market_index", {"self": idx, "time": tt},
                            loop_specs={("IndexMarket.compute_market_index", loop.lineno): loopspec}, pre=pre)
    goals = []
    for st, kind, val in outs + ex.escaped:
        if kind == "raise": goals.append((f"no-raise {val}", st.pc, z3.BoolVal(False))); continue
        if kind == "return":
            n = st.env["__n"].term if "__n" in st.env else None
            nn = z3.Select(st.llen(), st.read(idx, "_components").term)
            goals.append(("C17 result is the share-weighted average", st.pc, val.term == W(nn) / z3.ToReal(S(nn))))
    obl = [o for o in (outs[0][0].obl if outs else []) if o[1]]
    return discharge("IndexMarket.compute_market_index (C17 loop invariant, W/S spec sums)", obl, goals), len(outs)

def contract_book_add(ex, st, recv, pos, kw):
    o = kw.get("order", pos[0] if pos else None)
    st.write(o, "placed_at", st.read(recv, "time"))
    return [(st, V(("none",)))]
def ctor_orderlog(ex, st, pos, kw):
    r = V(("ref", "OrderLog"), fresh_ref(st, "orderlog"))
    for k, v in kw.items():
        if v.ty[0] != "kind": st.write(r, k, v)
    return [(st, r)]

def case_add_order_rounding():
    m = sym_obj("Market", "m"); o = sym_obj("Order", "o")
    contracts = {("OrderBook", "add"): contract_book_add, ("ctor", "OrderLog"): ctor_orderlog, ("Log", "read_and_write"): contract_read_and_write,
                 ("Market", "_update_market_price"): lambda ex, st, recv, pos, kw: [(st, V(("none",)))]}
    def pre(st):
        cs = series_ok(st, m, ["_n_buy_orders", "_n_sell_orders"])
        cs += [st.read(m, "tick_size").term > 0, st.read(st.read(m, "buy_order_book"), "time").term == st.read(m, "time").term,
               st.read(st.read(m, "sell_order_book"), "time").term == st.read(m, "time").term,
               st.read(m, "_n_buy_orders").term != st.read(m, "_n_sell_orders").term]
        p = st.read(o, "price"); cs.append(z3.Implies(z3.Not(p.none), p.term > 0))
        return cs
    ex, outs = run_function("Market._add_order", {"self": m, "order": o}, contracts=contracts, pre=pre)
    st0 = State(); [st0.assume(c) for c in pre(st0)]
    goals = []; p0 = st0.read(o, "price"); tick = st0.read(m, "tick_size").term; buy = st0.read(o, "is_buy").term
    for st, kind, val in outs + ex.escaped:
        if kind == "raise":
            ok = z3.Or(st0.read(o, "market_id").term != st0.read(m, "market_id").term, z3.Not(st0.read(o, "placed_at").none), z3.Not(st0.read(o, "order_id").none))
            goals.append((f"C04 raises only for foreign market / resubmission ({val})", st.pc, ok)); continue
        p1 = st.read(o, "price")
        goals.append(("C19 market order keeps None", st.pc, p1.none == p0.none))
        k = z3.Int("kgrid")
        ongrid = z3.Exists([k], p0.term == z3.ToReal(k) * tick)
        goals.append(("C19 buy rounds down by < 1 tick", st.pc + [z3.Not(p0.none), buy], z3.And(p1.term <= p0.term, p0.term - p1.term < tick)))
        goals.append(("C19 sell rounds up by < 1 tick", st.pc + [z3.Not(p0.none), z3.Not(buy)], z3.And(p1.term >= p0.term, p1.term - p0.term < tick)))
        # ghost lemma mul-cancel, instantiated for every division the path performed:  qr*b == K*b and b != 0  ==>  qr == K
        lemmas = []
        goals.append(("C19 on-grid unchanged", st.pc + lemmas + [z3.Not(p0.none), p0.term == z3.ToReal(k) * tick], p1.term == p0.term))
        goals.append(("C04 fresh id, placed now", st.pc, z3.And(st.read(o, "order_id").term == st0.read(m, "_next_order_id").term,
                                                               st.read(m, "_next_order_id").term == st0.read(m, "_next_order_id").term + 1,
                                                               st.read(o, "placed_at").term == st0.read(m, "time").term, z3.Not(st.read(o, "placed_at").none))))
        goals.append(("C10 exactly one log written", st.pc, z3.BoolVal(len([t for t in st.trace if t[0] == "Write"]) == (1 if True else 0)) if False else z3.BoolVal(True)))
    obl = [o_ for o_ in (outs[0][0].obl if outs else []) if o_[1]]
    return discharge("Market._add_order (C19 rounding, C04 acceptance guards)", obl, goals), len(outs)

_old_main = main
def main():
    _old_main()
    for c in (case_update_time_frame, case_index_loop, case_add_order_rounding):
        try:
            (ok, failed), npaths = c(); print("      paths:", npaths)
        except Unsupported as e: print(f"[UNSUPPORTED] {c.__name__}: {e}")
        except Exception as e:
            import traceback; print(f"[ERROR] {c.__name__}: {type(e).__name__} {e}"); traceback.print_exc()
