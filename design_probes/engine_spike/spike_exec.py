"""Spike part 4: phase 1 of Market._execution (the matching walk) executed from the REAL AST with the probe's invariants.
Scope: from function entry to the `if price is None: raise` check after the loop. Phases 2-3 (rebuild, apply fills) not covered here."""
import ast, z3, time, itertools
import spike
from spike import *
from spike_book import BookExec, mem, mem_arr, heap_ok, length, set_len, set_mem, REF

def O(st, f, part="val"): return st.arr("Order", f, field_type("Order", f), part)[1]
def tie(st, a, b):
    pat, oid = O(st, "placed_at"), O(st, "order_id")
    return z3.Or(pat[a] < pat[b], z3.And(pat[a] == pat[b], oid[a] < oid[b]))
def before(st, a, b, is_buy):
    pr, prn = O(st, "price"), O(st, "price", "none")
    better = (pr[a] > pr[b]) if is_buy else (pr[a] < pr[b])
    return z3.If(z3.And(prn[a], prn[b]), tie(st, a, b), z3.If(prn[a], True, z3.If(prn[b], False, z3.If(pr[a] != pr[b], better, tie(st, a, b)))))

GH = {}   # ghost arrays live in st.heap under ("@ghost:<name>","val")
def ghost(st, name, sort=None):
    k = ("@ghost:" + name, "val")
    if k not in st.heap: st.heap[k] = z3.Array("G_" + name, REF, sort if sort is not None else z3.IntSort())
    return st.heap[k]
def set_ghost(st, name, arr): st.heap[("@ghost:" + name, "val")] = arr

class ExecExec(BookExec):
    side_of_queue = {}      # queue ref term id -> 'B'/'S'
    def ev_List(self, e, st, d):
        if e.elts: raise Unsupported("non-empty list literal")
        r = z3.Int(f"newlist!{next(spike._fresh)}")
        st = st.copy(); set_len(st, r, z3.IntVal(0)); set_mem(st, r, z3.K(REF, False))
        st.assume(z3.And(*[r != x for x in self.known_refs]))
        self.known_refs.append(r)
        return [(st, V(("list", ("ref", "Order")), r))]
    def ev_Tuple(self, e, st, d):
        states = [(st, [])]
        for el in e.elts: states = [(s2, vs + [v]) for s1, vs in states for s2, v in self.ev(el, s1, d)]
        return [(s, V(("tuple",), py=vs)) for s, vs in states]
    def st_AnnAssign(self, s, st, d):
        if s.value is None: return [(st, "fall", None)]
        if isinstance(s.target, ast.Name) and s.target.id == "price" and isinstance(s.value, ast.Constant) and s.value.value is None:
            st = st.copy(); st.env["price"] = V(("opt", ("real",)), z3.RealVal(0), none=z3.BoolVal(True)); return [(st, "fall", None)]
        return super().st_AnnAssign(s, st, d)
    def st_Break(self, s, st, d): return [(st, "break", None)]
    def ev_Compare(self, e, st, d):
        # view-link axiom L3 for duplicate-free lists, instantiated where the code tests a length: len(q)==0 <=> q has no member
        if isinstance(e.left, ast.Call) and isinstance(e.left.func, ast.Name) and e.left.func.id == "len":
            out = []
            for s1, v in self.ev(e.left.args[0], st, d):
                if v.ty[0] == "list":
                    s1 = s1.copy(); x = z3.Int("x_len")
                    s1.assume((length(s1, v.term) == 0) == z3.ForAll([x], z3.Not(mem(s1, v.term, x))))
                out += super().ev_Compare(e, s1, d)
            return out
        return super().ev_Compare(e, st, d)
    def st_While(self, s, st, d): return self.loop_specs[(self.current, "while")](self, s, st, d)
    # heappop: add the heap-min fact (lemma heap-min + strict total order + distinct members)
    def ev_Call(self, e, st, d):
        f = e.func
        if isinstance(f, ast.Attribute) and isinstance(f.value, ast.Name) and f.value.id == "heapq" and f.attr == "heappop":
            out = []
            for s1, v in super().ev_Call(e, st, d):
                qv = self.ev(e.args[0], st, d)[0][1].term
                side = self.side_of(qv, st)
                y = z3.Int("y_min")
                s1.assume(z3.ForAll([y], z3.Implies(mem(s1, qv, y), before(s1, v.term, y, side == "B"))))
                out.append((s1, v))
            return out
        return super().ev_Call(e, st, d)
    def side_of(self, qterm, st):
        return "B" if z3.eq(z3.simplify(qterm), z3.simplify(self.qB)) else "S"
    def call_method(self, recv, name, pos, kw, st, d, node):
        if recv.ty[0] == "list" and name == "append":
            st = st.copy(); r = recv.term; n = length(st, r)
            if pos[0].ty[0] == "tuple":                      # pending.append((volume, buy, sell))  + ghost fill updates
                v, b, s_ = pos[0].py
                for nm, val, srt in (("pv", v.term, z3.IntSort()), ("pb", b.term, REF), ("ps", s_.term, REF)):
                    a = ghost(st, nm + "_arr", z3.IntSort() if nm == "pv" else REF)   # indexed by position
                    set_ghost(st, nm + "_arr", z3.Store(a, n, val))
                fb, fs = ghost(st, "fillB"), ghost(st, "fillS")
                set_ghost(st, "fillB", z3.Store(fb, b.term, fb[b.term] + v.term)); set_ghost(st, "fillS", z3.Store(fs, s_.term, fs[s_.term] + v.term))
                set_len(st, r, n + 1)
                return [(st, V(("none",)))]
            # popped_*.append(order): element array + idx ghost
            k, a = st.lel(("ref", "Order")); st.heap[k] = z3.Store(a, r, z3.Store(z3.Select(a, r), n, pos[0].term))
            set_len(st, r, n + 1)
            set_mem(st, r, z3.Store(z3.Select(mem_arr(st)[1], r), pos[0].term, True))
            gname = "idxB" if z3.eq(r, self.popB) else "idxS"
            set_ghost(st, gname, z3.Store(ghost(st, gname), pos[0].term, n))
            return [(st, V(("none",)))]
        return super().call_method(recv, name, pos, kw, st, d, node)

def elems(st, lst): k, a = st.lel(("ref", "Order")); return z3.Select(a, lst)

def make_inv(ex, st0, qB, qS, origB, origS):
    """returns function inv(st) -> list of (name, formula), over the spike state; mirrors design_probes/probe_execution_loop_vc.py"""
    vol0 = O(st0, "volume"); prn = O(st0, "price", "none"); pr = O(st0, "price")
    def side(st, tag, q, orig, popped, idxname, fillname, cur, tmp, is_buy, may_be_empty):
        x, y, k, k2 = z3.Ints("x y k k2")
        P = elems(st, popped); nP = length(st, popped); idx = ghost(st, idxname); fill = ghost(st, fillname)
        poppedp = lambda t: z3.And(0 <= idx[t], idx[t] < nP, P[idx[t]] == t)
        bf = lambda a, b: before(st0, a, b, is_buy)
        c = [(f"{tag}: queue length >= 0", length(st, q) >= 0),
             (f"{tag}: popped count", nP >= (0 if may_be_empty else 1)),
             (f"{tag}: popped are original, not in queue, idx", z3.ForAll([k], z3.Implies(z3.And(0 <= k, k < nP), z3.And(idx[P[k]] == k, z3.Not(mem(st, q, P[k])), orig[P[k]])))),
             (f"{tag}: orig = queue + popped", z3.ForAll([x], orig[x] == z3.Or(mem(st, q, x), poppedp(x)))),
             (f"{tag}: popped not in queue", z3.ForAll([x], z3.Implies(poppedp(x), z3.Not(mem(st, q, x))))),
             (f"{tag}: mem view of the popped list", z3.ForAll([x], mem(st, popped, x) == poppedp(x))),
             (f"{tag}: popped sorted", z3.ForAll([k, k2], z3.Implies(z3.And(0 <= k, k < k2, k2 < nP), bf(P[k], P[k2])))),
             (f"{tag}: popped before queue", z3.ForAll([k, x], z3.Implies(z3.And(0 <= k, k < nP, mem(st, q, x)), bf(P[k], x)))),
             (f"{tag}: unpopped unfilled", z3.ForAll([x], z3.Implies(z3.Not(poppedp(x)), fill[x] == 0))),
             (f"{tag}: fills >= 0", z3.ForAll([x], fill[x] >= 0)),
             (f"{tag}: earlier popped fully filled", z3.ForAll([k], z3.Implies(z3.And(0 <= k, k < nP - 1), fill[P[k]] == vol0[P[k]]))),
             (f"{tag}: heap shape of the queue", z3.Select(heap_ok(st)[1], q)),
             (f"{tag}: current order bookkeeping", z3.Implies(nP >= 1, z3.And(cur == P[nP - 1], fill[cur] == vol0[cur] - tmp, 0 <= tmp, tmp <= vol0[cur]))),
             (f"{tag}: nothing popped => tmp 0", z3.Implies(nP == 0, tmp == 0))]
        return c
    def inv(st):
        e = st.env
        c = side(st, "buy", qB, origB, e["popped_buy_orders"].term, "idxB", "fillB", e["buy_order"].term, e["buy_order_volume_tmp"].term, True, False)
        c += side(st, "sell", qS, origS, e["popped_sell_orders"].term, "idxS", "fillS", e["sell_order"].term, e["sell_order_volume_tmp"].term, False, True)
        c.append(("at most one temporary non-zero", z3.Not(z3.And(e["buy_order_volume_tmp"].term != 0, e["sell_order_volume_tmp"].term != 0))))
        x = z3.Int("x"); p = e["price"]; fb, fs = ghost(st, "fillB"), ghost(st, "fillS")
        c.append(("C01 bound: filled limit buys >= price", z3.ForAll([x], z3.Implies(z3.And(fb[x] > 0, z3.Not(prn[x])), z3.And(z3.Not(p.none), p.term <= pr[x])))))
        c.append(("C01 bound: filled limit sells <= price", z3.ForAll([x], z3.Implies(z3.And(fs[x] > 0, z3.Not(prn[x])), z3.And(z3.Not(p.none), p.term >= pr[x])))))
        PB = elems(st, e["popped_buy_orders"].term); x2 = z3.Int("x2")
        c.append(("pending length >= 0", length(st, e["pending"].term) >= 0))
        c.append(("C03: before the first match we are still at the two original tops",
                  z3.Implies(length(st, e["pending"].term) == 0,
                             z3.And(length(st, e["popped_buy_orders"].term) == 1, PB[0] == ex.topB0, e["buy_order_volume_tmp"].term == vol0[ex.topB0],
                                    length(st, e["popped_sell_orders"].term) == 0, length(st, qS) == ex.lenS0, elems(st, qS)[0] == ex.topS0,
                                    z3.ForAll([x2], mem(st, qS, x2) == origS[x2])))))
        c.append(("C03: price set once a non market/market pair matched", z3.Implies(z3.And(z3.Not(ex.start_both_market), length(st, e["pending"].term) >= 1), z3.Not(p.none))))
        return c
    return inv

def while_spec(ex, s, st, d):
    inv = ex.inv
    for nm, g in inv(st): st.oblige("inv-init: " + nm, g)
    # havoc everything the loop writes: locals + list views + ghost maps
    h = st.copy()
    for v, ty in (("buy_order", ("ref", "Order")), ("sell_order", ("ref", "Order")), ("buy_order_volume_tmp", ("int",)), ("sell_order_volume_tmp", ("int",))):
        h.env[v] = fresh(ty, v)
    h.env["price"] = fresh(("opt", ("real",)), "price")
    for key in [("@len", "val"), ("@mem", "val"), ("@heapok", "val"), ("@ghost:idxB", "val"), ("@ghost:idxS", "val"), ("@ghost:fillB", "val"),
                ("@ghost:fillS", "val"), ("@ghost:pv_arr", "val"), ("@ghost:pb_arr", "val"), ("@ghost:ps_arr", "val")]:
        if key in h.heap: h.heap[key] = z3.FreshConst(h.heap[key].sort(), "hv")
    k, a = h.lel(("ref", "Order")); h.heap[k] = z3.FreshConst(a.sort(), "hv")
    for nm, g in inv(h): h.assume(g)
    out = []; ex.iterations = 0
    n0 = length(h, ex.qB) + length(h, ex.qS)
    for s1, kind, val in ex.run(s.body, h, d):
        if kind == "fall":
            ex.iterations += 1
            for nm, g in inv(s1): s1.oblige("inv-step: " + nm, g)
            s1.oblige("decreases: queue lengths", z3.And(length(s1, ex.qB) + length(s1, ex.qS) < n0, length(s1, ex.qB) + length(s1, ex.qS) >= 0))
        elif kind == "break": out.append((s1, "fall", None))
        else: out.append((s1, kind, val))
    return out

def main():
    m = sym_obj("Market", "m")
    fn, _ = SRC.funcs["Market._execution"]
    # cut the function after `if price is None: raise AssertionError`
    body = []
    for stt in fn.body:
        body.append(stt)
        if isinstance(stt, ast.If) and ast.unparse(stt.test) == "price is None": break
    ex = ExecExec({}); ex.loop_specs = {("Market._execution", "while"): while_spec}; ex.current = "Market._execution"; ex.escaped = []
    st = State(env={"self": m})
    bB, bS = st.read(m, "buy_order_book"), st.read(m, "sell_order_book")
    qB, qS = st.read(bB, "priority_queue").term, st.read(bS, "priority_queue").term
    ex.qB, ex.qS = qB, qS; ex.known_refs = [qB, qS]
    x, y = z3.Ints("x y")
    origB, origS = z3.Select(mem_arr(st)[1], qB), z3.Select(mem_arr(st)[1], qS)
    vol, oid, patn, prn, pr = O(st, "volume"), O(st, "order_id"), O(st, "placed_at", "none"), O(st, "price", "none"), O(st, "price")
    pre = [qB != qS, bB.term != bS.term, length(st, qB) >= 0, length(st, qS) >= 0, z3.Select(heap_ok(st)[1], qB), z3.Select(heap_ok(st)[1], qS),
           z3.ForAll([x], z3.Implies(z3.Or(origB[x], origS[x]), z3.And(vol[x] >= 1, z3.Not(patn[x]), z3.Not(O(st, "order_id", "none")[x])))),
           z3.ForAll([x, y], z3.Implies(z3.And(z3.Or(origB[x], origS[x]), z3.Or(origB[y], origS[y]), x != y), oid[x] != oid[y])),     # ids distinct across both books
           z3.ForAll([x], z3.Not(z3.And(origB[x], origS[x]))),
           z3.Implies(length(st, qB) == 0, z3.ForAll([x], z3.Not(origB[x]))), z3.Implies(length(st, qS) == 0, z3.ForAll([x], z3.Not(origS[x]))),
           z3.Implies(length(st, qB) > 0, origB[elems(st, qB)[0]]), z3.Implies(length(st, qS) > 0, origS[elems(st, qS)[0]])]
    for c in pre: st.assume(c)
    # remain_executable_orders(): contract for the non both-market start (bounded stand-in covers the complement, DESIGN C03/B)
    topB, topS = elems(st, qB)[0], elems(st, qS)[0]
    ex.start_both_market = z3.And(prn[topB], prn[topS]); ex.topB0, ex.topS0, ex.lenS0 = topB, topS, length(st, qS)
    st.assume(z3.Not(z3.And(length(st, qB) > 0, length(st, qS) > 0, ex.start_both_market)))   # precondition P_nm of the deductive part (DESIGN C03)
    def c_remain(exx, s1, recv, pos, kw):
        res = z3.FreshBool("executable")
        nonempty = z3.And(length(s1, qB) > 0, length(s1, qS) > 0)
        crossing = z3.Or(prn[topB], prn[topS], pr[topS] <= pr[topB])
        s1.assume(z3.Implies(z3.Not(ex.start_both_market), res == z3.And(nonempty, crossing)))
        s1.assume(z3.Implies(res, nonempty))
        # heap-min at entry: tops are minimal
        s1.assume(z3.ForAll([x], z3.Implies(z3.And(origB[x], x != topB), before(s1, topB, x, True))))
        s1.assume(z3.ForAll([x], z3.Implies(z3.And(origS[x], x != topS), before(s1, topS, x, False))))
        return [(s1, mkbool(res))]
    ex.contracts[("Market", "remain_executable_orders")] = c_remain
    set_ghost(st, "fillB", z3.K(REF, z3.IntVal(0))); set_ghost(st, "fillS", z3.K(REF, z3.IntVal(0)))
    set_ghost(st, "idxB", z3.K(REF, z3.IntVal(-1))); set_ghost(st, "idxS", z3.K(REF, z3.IntVal(-1)))
    st0 = st.copy()
    # hooks that need to know which python variable holds which list: resolved lazily by name after assignment
    class Lazy:
        pass
    orig_assign = ex.assign
    def assign(target, val, s1, d):
        res = orig_assign(target, val, s1, d)
        if isinstance(target, ast.Name) and target.id == "popped_buy_orders": ex.popB = val.term
        if isinstance(target, ast.Name) and target.id == "popped_sell_orders": ex.popS = val.term
        return res
    ex.assign = assign
    ex.inv = make_inv(ex, st0, qB, qS, origB, origS)
    # `sell_order: Order` is only declared before the loop: bind an arbitrary reference so the invariant can mention it
    st.env["sell_order"] = fresh(("ref", "Order"), "sell_order_unbound")
    t0 = time.time()
    outs = ex.run(body, st)
    print("paths to end:", len(outs), " loop-body paths back to head:", ex.iterations, " symbolic execution", round(time.time() - t0, 1), "s")
    goals = []
    for s1, kind, val in outs + ex.escaped:
        if kind == "raise": goals.append((f"no-raise ({val})", s1.pc, z3.BoolVal(False)))
        if kind == "return": goals.append(("early return only when nothing is executable", s1.pc, z3.BoolVal(True)))
    obl = [ob for ob in (outs[0][0].obl if outs else st.obl) if ob[1]]
    (ok, failed), = [spike.discharge("Market._execution phase 1 from the real AST (invariants of the probe; non both-market start)", obl, goals)]
    for f in sorted(set((f[0], f[1]) for f in failed)): print("     ", f)

if __name__ == "__main__":
    main()
