"""Spike part 2: OrderBook._remove / change_order_volume on the real AST with view-based library contracts (mem/len/heapOK)."""
import ast, z3, time
import spike
from spike import *

REF = z3.IntSort()
def mem_arr(st):
    k = ("@mem", "val")
    if k not in st.heap: st.heap[k] = z3.Array("L_mem", REF, z3.ArraySort(REF, z3.BoolSort()))
    return k, st.heap[k]
def heap_ok(st):
    k = ("@heapok", "val")
    if k not in st.heap: st.heap[k] = z3.Array("L_heapok", REF, z3.BoolSort())
    return k, st.heap[k]
def mem(st, lst, x): return z3.Select(z3.Select(mem_arr(st)[1], lst), x)
def set_mem(st, lst, newset): k, a = mem_arr(st); st.heap[k] = z3.Store(a, lst, newset)
def length(st, lst): return z3.Select(st.llen(), lst)
def set_len(st, lst, n): st.heap[("@len", "val")] = z3.Store(st.llen(), lst, n)

class BookExec(Exec):
    """adds: heapq.* and list.remove over views, `a == b` on Orders via the (separately proved) identity lemma, q[0] linked to mem"""
    def ev_Call(self, e, st, d):
        f = e.func
        if isinstance(f, ast.Attribute) and isinstance(f.value, ast.Name) and f.value.id == "heapq":
            out = []
            for s1, pos, kw in self._args_on(e, st, d):
                s1 = s1.copy(); q = pos[0].term
                if f.attr == "heappop":
                    s1.oblige("heappop: heap shape", z3.Select(heap_ok(s1)[1], q)); s1.oblige("heappop: non-empty", length(s1, q) > 0)
                    k, a = s1.lel(("ref", "Order")); top = z3.Select(z3.Select(a, q), 0)
                    s1.assume(mem(s1, q, top))                                   # view link: q[0] is a member
                    newset = z3.Store(z3.Select(mem_arr(s1)[1], q), top, False)  # distinct list: removing the element removes membership
                    set_mem(s1, q, newset); set_len(s1, q, length(s1, q) - 1)
                    # element array is havocked (positions move), heap shape kept
                    s1.heap[k] = z3.Store(a, q, z3.FreshConst(z3.ArraySort(z3.IntSort(), REF), "elems"))
                    out.append((s1, V(("ref", "Order"), top)))
                elif f.attr == "heapify":
                    k, a = s1.lel(("ref", "Order")); s1.heap[k] = z3.Store(a, q, z3.FreshConst(z3.ArraySort(z3.IntSort(), REF), "elems"))
                    kh, h = heap_ok(s1); s1.heap[kh] = z3.Store(h, q, True)
                    out.append((s1, V(("none",))))
                else: raise Unsupported("heapq." + f.attr)
            return out
        return super().ev_Call(e, st, d)
    def call_method(self, recv, name, pos, kw, st, d, node):
        if recv.ty[0] == "list" and name == "remove":
            st = st.copy(); q = recv.term; x = pos[0].term
            st.oblige("list.remove: element present", mem(st, q, x))
            set_mem(st, q, z3.Store(z3.Select(mem_arr(st)[1], q), x, False)); set_len(st, q, length(st, q) - 1)
            k, a = st.lel(("ref", "Order")); st.heap[k] = z3.Store(a, q, z3.FreshConst(z3.ArraySort(z3.IntSort(), REF), "elems"))
            kh, h = heap_ok(st); st.heap[kh] = z3.Store(h, q, z3.FreshConst(z3.BoolSort(), "heapok"))   # shape unknown after remove
            return [(st, V(("none",)))]
        return super().call_method(recv, name, pos, kw, st, d, node)
    def compare(self, op, l, r, st):
        if isinstance(op, (ast.Eq, ast.NotEq)) and l.ty == ("ref", "Order") and r.ty == ("ref", "Order"):
            # contract of Order.__eq__ on members of one book (lemma C02/Order/eq-is-identity, from B2): == is identity
            t = l.term == r.term
            return mkbool(t if isinstance(op, ast.Eq) else z3.Not(t))
        return super().compare(op, l, r, st)

def book_inv(st, b):
    """BookInv over views (clauses used here): separation, B1 (volume>=1, placed), B2, B3, B4 both directions"""
    x, y, k = z3.Ints("x y k")
    q = st.read(b, "priority_queue").term; etl = st.read(b, "expire_time_list")
    ex = Exec(); kd, kv = ex.dict_arrays(st, etl.ty)
    dom = lambda kk: z3.Select(z3.Select(st.heap[kd], etl.term), kk); lst = lambda kk: z3.Select(z3.Select(st.heap[kv], etl.term), kk)
    O = lambda f, part="val": st.arr("Order", f, field_type("Order", f), part)[1]
    vol, pat, patn, ttl, ttln, oid = O("volume"), O("placed_at"), O("placed_at", "none"), O("ttl"), O("ttl", "none"), O("order_id")
    cs = [length(st, q) >= 0,
          z3.ForAll([x], z3.Implies(mem(st, q, x), z3.And(vol[x] >= 1, z3.Not(patn[x])))),
          z3.ForAll([x, y], z3.Implies(z3.And(mem(st, q, x), mem(st, q, y), x != y), oid[x] != oid[y])),
          z3.Select(heap_ok(st)[1], q),
          z3.ForAll([k], z3.Implies(dom(k), lst(k) != q)),                                            # separation: bucket lists are not the queue
          z3.ForAll([k, y], z3.Implies(z3.And(dom(k), dom(y), k != y), lst(k) != lst(y))),            # and pairwise distinct
          z3.ForAll([x], z3.Implies(z3.And(mem(st, q, x), z3.Not(ttln[x])), z3.And(dom(pat[x] + ttl[x]), mem(st, lst(pat[x] + ttl[x]), x)))),
          z3.ForAll([k, x], z3.Implies(z3.And(dom(k), mem(st, lst(k), x)), z3.And(mem(st, q, x), z3.Not(ttln[x]), pat[x] + ttl[x] == k))),
          z3.Implies(length(st, q) == 0, z3.ForAll([x], z3.Not(mem(st, q, x))))]
    return cs

def run(qual, env, pre):
    fn, mod = SRC.funcs[qual]
    ex = BookExec({}); ex.loop_specs = {}; ex.current = qual; ex.escaped = []
    st = State(env=dict(env))
    for c in pre(st): st.assume(c)
    return ex, ex.run(fn.body, st)

def case_remove():
    b = sym_obj("OrderBook", "book"); o = sym_obj("Order", "ord")
    def pre(st): return book_inv(st, b) + [mem(st, st.read(b, "priority_queue").term, o.term)]
    ex, outs = run("OrderBook._remove", {"self": b, "order": o}, pre)
    st0 = State(); [st0.assume(c) for c in pre(st0)]
    q = st0.read(b, "priority_queue").term; goals = []
    for st, kind, val in outs + ex.escaped:
        if kind == "raise": goals.append((f"no-raise {val}", st.pc, z3.BoolVal(False))); continue
        y = z3.Int("y")
        goals.append(("post: membership = old minus the order", st.pc, z3.ForAll([y], mem(st, q, y) == z3.And(mem(st0, q, y), y != o.term))))
        goals.append(("post: len - 1", st.pc, length(st, q) == length(st0, q) - 1))
        goals.append(("post: heap shape restored", st.pc, z3.Select(heap_ok(st)[1], q)))
        inv1 = book_inv(st, b)
        for i, c in enumerate(inv1[:8]): goals.append((f"BookInv preserved #{i}", st.pc, c))
    obl = [ob for ob in (outs[0][0].obl if outs else []) if ob[1]]
    return discharge("OrderBook._remove (views: mem/len/heapOK, dict of bucket lists)", obl, goals), len(outs)

def case_change_volume():
    b = sym_obj("OrderBook", "book"); o = sym_obj("Order", "ord"); dlt = V(("int",), z3.Int("delta"))
    def pre(st):
        vol = st.read(o, "volume").term
        return book_inv(st, b) + [mem(st, st.read(b, "priority_queue").term, o.term), vol + dlt.term >= 0]
    ex, outs = run("OrderBook.change_order_volume", {"self": b, "order": o, "delta": dlt}, pre)
    st0 = State(); [st0.assume(c) for c in pre(st0)]
    q = st0.read(b, "priority_queue").term; goals = []
    for st, kind, val in outs + ex.escaped:
        if kind == "raise": goals.append((f"no-raise {val}", st.pc, z3.BoolVal(False))); continue
        v1 = st.read(o, "volume").term
        goals.append(("post: volume' = volume + delta", st.pc, v1 == st0.read(o, "volume").term + dlt.term))
        goals.append(("post: resting iff volume' > 0", st.pc, mem(st, q, o.term) == (v1 > 0)))
        y = z3.Int("y")
        goals.append(("post: other members untouched", st.pc, z3.ForAll([y], z3.Implies(y != o.term, mem(st, q, y) == mem(st0, q, y)))))
        goals.append(("post: every resting order still has volume >= 1", st.pc, book_inv(st, b)[1]))
    obl = [ob for ob in (outs[0][0].obl if outs else []) if ob[1]]
    return discharge("OrderBook.change_order_volume (calls _remove inline)", obl, goals), len(outs)

if __name__ == "__main__":
    for c in (case_remove, case_change_volume):
        try:
            (ok, failed), n = c(); print("      paths:", n)
            for f in sorted(set((f[0], f[1]) for f in failed)): print("       ", f)
        except Unsupported as e: print("[UNSUPPORTED]", c.__name__, e)
        except Exception as e:
            import traceback; traceback.print_exc()
