"""Spike part 6: the WHOLE of Market._execution from the real AST: walk (phase 1), rebuild (phase 2), apply fills via map/lambda (phase 3),
final remain_executable_orders() check, logging.  `_execute_orders` and `remain_executable_orders` are used through contracts (modular)."""
import ast, z3, time, itertools
import spike
from spike import *
from spike_book import mem, mem_arr, heap_ok, length, set_len, set_mem, REF
import spike_exec as S1
from spike_exec import O, before, ghost, set_ghost, elems, ExecExec

A2 = z3.ArraySort(z3.IntSort(), z3.ArraySort(REF, z3.IntSort()))
def ghost2(st, name):
    k = ("@ghost:" + name, "val")
    if k not in st.heap: st.heap[k] = z3.Const("G_" + name, A2)
    return st.heap[k]

class Exec2(ExecExec):
    def call_method(self, recv, name, pos, kw, st, d, node):
        if recv.ty[0] == "list" and name == "append" and pos[0].ty[0] == "tuple":
            n = length(st, recv.term); v, b, s_ = pos[0].py
            out = super().call_method(recv, name, pos, kw, st, d, node)
            for (s1, r) in out:     # ghost fill history: fh[n+1] = fh[n] with the two parties bumped
                for nm, party in (("fhB", b.term), ("fhS", s_.term)):
                    fh = ghost2(s1, nm); row = z3.Select(fh, n)
                    set_ghost(s1, nm, z3.Store(fh, n + 1, z3.Store(row, party, row[party] + v.term)))
            return out
        if name == "bulk_write":
            st = st.copy(); st.trace = st.trace + [("BulkWrite", kw["logs"].term)]; return [(st, V(("none",)))]
        return super().call_method(recv, name, pos, kw, st, d, node)
    def ev_List(self, e, st, d):
        if e.elts and all(isinstance(x, ast.Starred) for x in e.elts) and len(e.elts) == 2:
            out = []
            for s1, a in self.ev(e.elts[0].value, st, d):
                for s2, b in self.ev(e.elts[1].value, s1, d):
                    s2 = s2.copy(); r = z3.Int(f"catlist!{next(spike._fresh)}")
                    s2.assume(z3.And(*[r != x for x in self.known_refs])); self.known_refs.append(r)
                    set_len(s2, r, length(s2, a.term) + length(s2, b.term))
                    y = z3.Int("y_cat"); newmem = z3.FreshConst(z3.ArraySort(REF, z3.BoolSort()), "catmem")
                    s2.assume(z3.ForAll([y], newmem[y] == z3.Or(mem(s2, a.term, y), mem(s2, b.term, y))))
                    set_mem(s2, r, newmem)
                    kh, h = heap_ok(s2); s2.heap[kh] = z3.Store(h, r, z3.FreshConst(z3.BoolSort(), "hk"))
                    out.append((s2, V(("list", ("ref", "Order")), r)))
            return out
        return super().ev_List(e, st, d)
    def ev_Call(self, e, st, d):
        f = e.func
        if isinstance(f, ast.Name) and f.id == "list" and isinstance(e.args[0], ast.Call) and getattr(e.args[0].func, "id", "") == "map":
            lam, seq = e.args[0].args
            return self.map_spec(self, lam, seq, st, d)
        return super().ev_Call(e, st, d)

def tops(st, q):
    return elems(st, q)[0]

def final_inv_parts(ex, st, m, k, logs, price):
    """invariant of the map-loop (phase 3) at index k"""
    st0 = ex.st0; vol0 = O(st0, "volume"); vol = O(st, "volume"); x = z3.Int("x3"); j = z3.Int("j3")
    qB = st.read(st.read(m, "buy_order_book"), "priority_queue").term; qS = st.read(st.read(m, "sell_order_book"), "priority_queue").term
    fhB, fhS = ghost2(st, "fhB"), ghost2(st, "fhS")
    LP = st.arr("ExecutionLog", "price", ("real",))[1]; LV = st.arr("ExecutionLog", "volume", ("int",))[1]
    LE = elems_of(st, logs)
    pv = ghost(st, "pv_arr")
    c = [("phase3: 0 <= k <= len(pending)", z3.And(0 <= k, k <= length(st, st.env["pending"].term))),
         ("phase3: buy volumes = entry volume - fill history", z3.ForAll([x], z3.Implies(ex.origB[x], vol[x] == vol0[x] - fhB[k][x]))),
         ("phase3: sell volumes = entry volume - fill history", z3.ForAll([x], z3.Implies(ex.origS[x], vol[x] == vol0[x] - fhS[k][x]))),
         ("phase3: buy queue = original orders with volume left", z3.ForAll([x], mem(st, qB, x) == z3.And(ex.origB[x], vol[x] > 0))),
         ("phase3: sell queue = original orders with volume left", z3.ForAll([x], mem(st, qS, x) == z3.And(ex.origS[x], vol[x] > 0))),
         ("phase3: heaps ok", z3.And(z3.Select(heap_ok(st)[1], qB), z3.Select(heap_ok(st)[1], qS))),
         ("phase3: len(logs) == k", length(st, logs) == k),
         ("phase3: every log so far carries the common price and its pending volume", z3.ForAll([j], z3.Implies(z3.And(0 <= j, j < k), z3.And(LP[LE[j]] == price, LV[LE[j]] == pv[j]))))]
    return c
def elems_of(st, lst):
    k, a = st.lel(("ref", "ExecutionLog")); return z3.Select(a, lst)

TAG = z3.Bool("TAG_phase1")
def exit_facts(ex, s1):
    """cut lemma asserted at every exit of the walk: stated over final volume := entry volume - fill (cf. probe_execution_loop_vc.py)"""
    st0 = ex.st0; vol0 = O(st0, "volume"); prn, pr = O(st0, "price", "none"), O(st0, "price")
    fb, fs = ghost(s1, "fillB"), ghost(s1, "fillS"); x, y, bb, bs = z3.Ints("ex_x ex_y ex_bb ex_bs")
    remB = lambda t: z3.And(ex.origB[t], fb[t] < vol0[t]); remS = lambda t: z3.And(ex.origS[t], fs[t] < vol0[t])
    bestB = z3.And(remB(bb), z3.ForAll([x], z3.Implies(z3.And(remB(x), x != bb), before(st0, bb, x, True))))
    bestS = z3.And(remS(bs), z3.ForAll([x], z3.Implies(z3.And(remS(x), x != bs), before(st0, bs, x, False))))
    return [("ExitFacts E6 buys: filled orders are a priority prefix", z3.ForAll([x, y], z3.Implies(z3.And(ex.origB[x], ex.origB[y], before(st0, y, x, True), fb[x] > 0), fb[y] == vol0[y]))),
            ("ExitFacts E6 sells", z3.ForAll([x, y], z3.Implies(z3.And(ex.origS[x], ex.origS[y], before(st0, y, x, False), fs[x] > 0), fs[y] == vol0[y]))),
            ("ExitFacts E7: best remaining orders do not cross", z3.ForAll([bb, bs], z3.Implies(z3.And(bestB, bestS, z3.Or(z3.Not(prn[bb]), z3.Not(prn[bs]))),
                                                                                             z3.And(z3.Not(prn[bb]), z3.Not(prn[bs]), pr[bb] < pr[bs]))))]
def while_spec2(ex, s, st, d):
    inv = ex.inv
    for nm, g in inv(st): st.oblige("inv-init: " + nm, g)
    h = st.copy()
    for v, ty in (("buy_order", ("ref", "Order")), ("sell_order", ("ref", "Order")), ("buy_order_volume_tmp", ("int",)), ("sell_order_volume_tmp", ("int",))):
        h.env[v] = fresh(ty, v)
    h.env["price"] = fresh(("opt", ("real",)), "price")
    for key in list(h.heap):
        if key[0] in ("@len", "@mem", "@heapok") or key[0].startswith("@ghost:") or key[0].startswith("@el_"):
            h.heap[key] = z3.FreshConst(h.heap[key].sort(), "hv")
    h.assume(TAG)
    for nm, g in inv(h):
        side = nm.startswith("buy:") or nm.startswith("sell:")
        h.assume(z3.Implies(TAG, g) if side else g)          # side invariants are hidden (group TAG_phase1) after the cut
    out = []; n0 = length(h, ex.qB) + length(h, ex.qS)
    for s1, kind, val in ex.run(s.body, h, d):
        if kind == "fall":
            for nm, g in inv(s1): s1.oblige("inv-step: " + nm, g)
            s1.oblige("decreases: queue lengths", z3.And(length(s1, ex.qB) + length(s1, ex.qS) < n0, length(s1, ex.qB) + length(s1, ex.qS) >= 0))
        elif kind == "break":
            for nm, g in exit_facts(ex, s1): s1.oblige(nm, g); s1.assume(g)      # ghost assert = cut
            out.append((s1, "fall", None))
        else: out.append((s1, kind, val))
    return out

def make_map_spec(m):
    def map_spec(ex, lam, seq, st, d):
        out = []
        for s1, pend in ex.ev(seq, st, d):
            s1 = s1.copy()
            logs = z3.Int(f"logs!{next(spike._fresh)}"); s1.assume(z3.And(*[logs != r for r in ex.known_refs])); ex.known_refs.append(logs)
            set_len(s1, logs, z3.IntVal(0)); ex.current_logs = logs
            price = s1.env["price"].term
            for nm, g in final_inv_parts(ex, s1, m, z3.IntVal(0), logs, price): s1.oblige("phase3 init: " + nm, g)
            # havoc: order volumes, the two queues' views, logs list, log fields, series (not modelled), trace
            h = s1.copy(); k = z3.FreshInt("k")
            for key in list(h.heap):
                if key[0] in ("Order.volume", "@len", "@mem", "@heapok", "ExecutionLog.price", "ExecutionLog.volume") or key[0].startswith("@el_"):
                    h.heap[key] = z3.FreshConst(h.heap[key].sort(), "hv3")
            h.trace = s1.trace + [("...",)]
            # frame for the lists the loop does not touch (pending, popped): their lengths are unchanged
            for nm in ("pending", "popped_buy_orders", "popped_sell_orders"):
                h.assume(length(h, s1.env[nm].term) == length(s1, s1.env[nm].term))
            for nm, g in final_inv_parts(ex, h, m, k, logs, price): h.assume(g)
            # one iteration
            hb = h.copy(); hb.assume(k < length(hb, pend.term))
            xv = V(("tuple",), py=[V(("int",), ghost(hb, "pv_arr")[k]), V(("ref", "Order"), ghost(hb, "pb_arr", REF)[k]), V(("ref", "Order"), ghost(hb, "ps_arr", REF)[k])])
            hb.env[lam.args.args[0].arg] = xv
            for s2, logv in ex.ev(lam.body, hb, d):
                s2 = s2.copy(); n = length(s2, logs)
                kk, a = s2.lel(("ref", "ExecutionLog")); s2.heap[kk] = z3.Store(a, logs, z3.Store(z3.Select(a, logs), n, logv.term)); set_len(s2, logs, n + 1)
                for nm, g in final_inv_parts(ex, s2, m, k + 1, logs, price): s2.oblige("phase3 step: " + nm, g)
            # exit
            he = h.copy(); he.assume(k == length(he, pend.term)); he.trace = s1.trace + [("ForEachPending: Write(log)",)]
            out.append((he, V(("list", ("ref", "ExecutionLog")), logs)))
        return out
    return map_spec

def ev_Subscript_tuple(self, e, st, d):
    out = []
    for s1, base in self.ev(e.value, st, d):
        if base.ty[0] == "tuple":
            out.append((s1, base.py[e.slice.value])); continue
        out += Exec.ev_Subscript(self, ast.Subscript(value=e.value, slice=e.slice, ctx=e.ctx), s1, d) if False else super(Exec2, self).ev_Subscript(e, s1, d)
    return out
Exec2.ev_Subscript = ev_Subscript_tuple

def main():
    m = sym_obj("Market", "m")
    fn, _ = SRC.funcs["Market._execution"]
    ex = Exec2({}); ex.loop_specs = {("Market._execution", "while"): while_spec2}; ex.current = "Market._execution"; ex.escaped = []
    st = State(env={"self": m})
    bB, bS = st.read(m, "buy_order_book"), st.read(m, "sell_order_book")
    qB, qS = st.read(bB, "priority_queue").term, st.read(bS, "priority_queue").term
    ex.qB, ex.qS = qB, qS; ex.known_refs = [qB, qS]
    x, y = z3.Ints("x y")
    origB, origS = z3.Select(mem_arr(st)[1], qB), z3.Select(mem_arr(st)[1], qS); ex.origB, ex.origS = origB, origS
    vol, oid, patn, prn, pr = O(st, "volume"), O(st, "order_id"), O(st, "placed_at", "none"), O(st, "price", "none"), O(st, "price")
    mid = O(st, "market_id")
    pre = [qB != qS, bB.term != bS.term, length(st, qB) >= 0, length(st, qS) >= 0, z3.Select(heap_ok(st)[1], qB), z3.Select(heap_ok(st)[1], qS),
           z3.ForAll([x], z3.Implies(z3.Or(origB[x], origS[x]), z3.And(vol[x] >= 1, z3.Not(patn[x]), z3.Not(O(st, "order_id", "none")[x]), mid[x] == st.read(m, "market_id").term))),
           z3.ForAll([x, y], z3.Implies(z3.And(z3.Or(origB[x], origS[x]), z3.Or(origB[y], origS[y]), x != y), oid[x] != oid[y])),
           z3.ForAll([x], z3.Not(z3.And(origB[x], origS[x]))),
           z3.Implies(length(st, qB) == 0, z3.ForAll([x], z3.Not(origB[x]))), z3.Implies(length(st, qS) == 0, z3.ForAll([x], z3.Not(origS[x]))),
           z3.Implies(length(st, qB) > 0, origB[elems(st, qB)[0]]), z3.Implies(length(st, qS) > 0, origS[elems(st, qS)[0]]),
           st.read(m, "_is_running").term]
    for c in pre: st.assume(c)
    topB, topS = elems(st, qB)[0], elems(st, qS)[0]
    ex.start_both_market = z3.And(prn[topB], prn[topS]); ex.topB0, ex.topS0, ex.lenS0 = topB, topS, length(st, qS)
    st.assume(z3.Not(z3.And(length(st, qB) > 0, length(st, qS) > 0, ex.start_both_market)))
    def c_remain(exx, s1, recv, pos, kw):
        # contract of remain_executable_orders on the CURRENT books (views): empty side -> False; tops not both market -> crossing test
        cb = s1.read(s1.read(m, "buy_order_book"), "priority_queue").term; cs = s1.read(s1.read(m, "sell_order_book"), "priority_queue").term
        tB, tS = elems(s1, cb)[0], elems(s1, cs)[0]; res = z3.FreshBool("executable")
        eB = z3.ForAll([x], z3.Not(mem(s1, cb, x))); eS = z3.ForAll([x], z3.Not(mem(s1, cs, x)))
        s1.assume(z3.Implies(z3.Or(eB, eS), z3.Not(res)))
        s1.assume((length(s1, cb) == 0) == eB); s1.assume((length(s1, cs) == 0) == eS)
        s1.assume(z3.Implies(z3.Not(eB), z3.And(mem(s1, cb, tB), z3.ForAll([x], z3.Implies(z3.And(mem(s1, cb, x), x != tB), before(s1, tB, x, True))))))
        s1.assume(z3.Implies(z3.Not(eS), z3.And(mem(s1, cs, tS), z3.ForAll([x], z3.Implies(z3.And(mem(s1, cs, x), x != tS), before(s1, tS, x, False))))))
        both = z3.And(prn[tB], prn[tS])
        s1.assume(z3.Implies(z3.And(z3.Not(eB), z3.Not(eS), z3.Not(both)), res == z3.Or(prn[tB], prn[tS], pr[tS] <= pr[tB])))
        return [(s1, mkbool(res))]
    ex.contracts[("Market", "remain_executable_orders")] = c_remain
    def c_execute_orders(exx, s1, recv, pos, kw):
        p, v, b, s_ = kw["price"], kw["volume"], kw["buy_order"], kw["sell_order"]
        cb = s1.read(s1.read(m, "buy_order_book"), "priority_queue").term; cs = s1.read(s1.read(m, "sell_order_book"), "priority_queue").term
        volA = O(s1, "volume")
        s1.oblige("pre@_execute_orders: market running", s1.read(m, "_is_running").term)
        s1.oblige("pre@_execute_orders: both orders rest in this market's books", z3.And(mem(s1, cb, b.term), mem(s1, cs, s_.term)))
        s1.oblige("pre@_execute_orders: 1 <= volume <= both remaining volumes", z3.And(v.term >= 1, v.term <= volA[b.term], v.term <= volA[s_.term]))
        s1.oblige("pre@_execute_orders: price is a float", z3.Not(p.none) if p.ty[0] == "opt" else z3.BoolVal(True))
        kv = ("Order.volume", "val")
        newvol = z3.Store(z3.Store(volA, b.term, volA[b.term] - v.term), s_.term, volA[s_.term] - v.term)   # b != s_ (different books)
        s1.heap[kv] = newvol
        for q, o in ((cb, b.term), (cs, s_.term)):
            gone = newvol[o] == 0
            set_mem(s1, q, z3.If(gone, z3.Store(z3.Select(mem_arr(s1)[1], q), o, False), z3.Select(mem_arr(s1)[1], q)))
            set_len(s1, q, z3.If(gone, length(s1, q) - 1, length(s1, q)))
        log = V(("ref", "ExecutionLog"), z3.Int(f"xlog!{next(spike._fresh)}"))
        if getattr(exx, "current_logs", None) is not None:      # allocation freshness, instantiated on the collection at hand
            jf = z3.Int("jfresh"); s1.assume(z3.ForAll([jf], z3.Implies(z3.And(0 <= jf, jf < length(s1, exx.current_logs)), elems_of(s1, exx.current_logs)[jf] != log.term)))
        s1.heap[("ExecutionLog.price", "val")] = z3.Store(s1.arr("ExecutionLog", "price", ("real",))[1], log.term, p.term)
        s1.heap[("ExecutionLog.volume", "val")] = z3.Store(s1.arr("ExecutionLog", "volume", ("int",))[1], log.term, v.term)
        s1.trace = s1.trace + [("Write", log.term)]
        return [(s1, log)]
    ex.contracts[("Market", "_execute_orders")] = c_execute_orders
    ex.map_spec = make_map_spec(m)
    set_ghost(st, "fillB", z3.K(REF, z3.IntVal(0))); set_ghost(st, "fillS", z3.K(REF, z3.IntVal(0)))
    set_ghost(st, "idxB", z3.K(REF, z3.IntVal(-1))); set_ghost(st, "idxS", z3.K(REF, z3.IntVal(-1)))
    zero_row = z3.K(REF, z3.IntVal(0))
    set_ghost(st, "fhB", z3.Store(z3.Const("G_fhB", A2), 0, zero_row)); set_ghost(st, "fhS", z3.Store(z3.Const("G_fhS", A2), 0, zero_row))
    ghost(st, "pv_arr"); ghost(st, "pb_arr", REF); ghost(st, "ps_arr", REF)
    st0 = st.copy(); ex.st0 = st0
    orig_assign = ex.assign
    def assign(target, val, s1, d):
        res = orig_assign(target, val, s1, d)
        if isinstance(target, ast.Name) and target.id == "popped_buy_orders": ex.popB = val.term
        if isinstance(target, ast.Name) and target.id == "popped_sell_orders": ex.popS = val.term
        return res
    ex.assign = assign
    inv1 = S1.make_inv(ex, st0, qB, qS, origB, origS)
    def inv(s1):
        c = inv1(s1); e = s1.env; n = length(s1, e["pending"].term); j = z3.Int("j"); x_ = z3.Int("xh")
        vol0 = O(st0, "volume")
        for nm, orig, fill, parr in (("fhB", origB, ghost(s1, "fillB"), ghost(s1, "pb_arr", REF)), ("fhS", origS, ghost(s1, "fillS"), ghost(s1, "ps_arr", REF))):
            fh = ghost2(s1, nm); pv = ghost(s1, "pv_arr")
            c += [(f"{nm}: starts at zero", z3.ForAll([x_], fh[0][x_] == 0)),
                  (f"{nm}: one entry per pending pair", z3.ForAll([j, x_], z3.Implies(z3.And(0 <= j, j < n), fh[j + 1][x_] == fh[j][x_] + z3.If(x_ == parr[j], pv[j], 0)))),
                  (f"{nm}: ends at the fill", z3.ForAll([x_], fh[n][x_] == fill[x_])),
                  (f"{nm}: non-negative", z3.ForAll([j, x_], z3.Implies(z3.And(0 <= j, j <= n), fh[j][x_] >= 0))),
                  (f"{nm}: never above the fill", z3.ForAll([j, x_], z3.Implies(z3.And(0 <= j, j <= n), fh[j][x_] <= fill[x_]))),
                  (f"{nm}: pending volumes positive, parties original", z3.ForAll([j], z3.Implies(z3.And(0 <= j, j < n), z3.And(pv[j] >= 1, orig[parr[j]])))),
                  (f"{nm}: parties of pending pairs have a positive fill", z3.ForAll([j], z3.Implies(z3.And(0 <= j, j < n), fill[parr[j]] >= 1))),
                  (f"{nm}: fill never exceeds entry volume", z3.ForAll([x_], z3.Implies(orig[x_], fill[x_] <= vol0[x_])))]
        return c
    ex.inv = inv
    # the loop havocs ghost history too
    old_while = S1.while_spec
    st.env["sell_order"] = fresh(("ref", "Order"), "sell_order_unbound")
    t0 = time.time()
    outs = ex.run(fn.body, st)
    print("paths to end:", len(outs), " symbolic execution", round(time.time() - t0, 1), "s")
    goals = []
    for s1, kind, val in outs + ex.escaped:
        if kind == "raise": goals.append((f"no-raise ({val})", s1.pc, z3.BoolVal(False))); continue
        if kind == "return" and val.ty[0] == "list" and "pending" in s1.env:
            vol0 = O(st0, "volume"); volF = O(s1, "volume"); fb, fs = ghost(s1, "fillB"), ghost(s1, "fillS"); xx, yy, jj = z3.Ints("xx yy jj")
            LP = s1.arr("ExecutionLog", "price", ("real",))[1]; LE = elems_of(s1, val.term); price = s1.env["price"]
            n = length(s1, val.term); pb, ps = ghost(s1, "pb_arr", REF), ghost(s1, "ps_arr", REF)
            goals += [("E2 one common price", s1.pc, z3.ForAll([jj], z3.Implies(z3.And(0 <= jj, jj < n), LP[LE[jj]] == price.term))),
                      ("E3 price within both limits of every fill", s1.pc, z3.ForAll([jj], z3.Implies(z3.And(0 <= jj, jj < n),
                            z3.And(z3.Implies(z3.Not(prn[pb[jj]]), price.term <= pr[pb[jj]]), z3.Implies(z3.Not(prn[ps[jj]]), price.term >= pr[ps[jj]]))))),
                      ("E5 accounting: final volume = entry volume - fills >= 0 (buys)", s1.pc, z3.ForAll([xx], z3.Implies(origB[xx], z3.And(volF[xx] == vol0[xx] - fb[xx], volF[xx] >= 0)))),
                      ("E5 accounting (sells)", s1.pc, z3.ForAll([xx], z3.Implies(origS[xx], z3.And(volF[xx] == vol0[xx] - fs[xx], volF[xx] >= 0)))),
                      ("E6 priority: a filled buy has every better buy fully filled", s1.pc, z3.ForAll([xx, yy], z3.Implies(z3.And(origB[xx], origB[yy], before(st0, yy, xx, True), fb[xx] > 0), volF[yy] == 0))),
                      ("E6 priority (sells)", s1.pc, z3.ForAll([xx, yy], z3.Implies(z3.And(origS[xx], origS[yy], before(st0, yy, xx, False), fs[xx] > 0), volF[yy] == 0))),
                      ("one log per pending pair", s1.pc, n == length(s1, s1.env["pending"].term))]
            tr = [t[0] for t in s1.trace]
            goals.append(("C10 trace: nothing but one Write per fill", s1.pc, z3.BoolVal("BulkWrite" not in tr)))
    obl = [ob for ob in (outs[0][0].obl if outs else st.obl) if ob[1]]
    import os
    only = os.environ.get("ONLY")
    if only:
        keys = only.split(","); obl = [o for o in obl if any(k in o[0] for k in keys)]; goals = [g for g in goals if any(k in g[0] for k in keys)]
    (ok, failed), = [spike.discharge("Market._execution, whole function from the real AST", obl, goals)]
    for f in sorted(set((f[0], f[1]) for f in failed)): print("     ", f)

if __name__ == "__main__":
    main()
