"""Engine spike (design probe, NOT the framework): a small heap-aware AST->z3 symbolic executor run on
real pams functions, to learn what the subset / encoding in DESIGN.md must cover.
Run: python3-vt spike.py
"""
import ast, glob, os, sys, time, itertools
import z3

REPO = os.environ.get("PAMS_REPO", "/repo")

# ----------------------------------------------------------------------------- source index
class Src:
    def __init__(self):
        self.funcs = {}      # qualname -> (FunctionDef, module)
        self.classes = {}    # class name -> (ClassDef, module)
        self.consts = {}     # (module, name) -> ast value
        for f in glob.glob(REPO + "/pams/**/*.py", recursive=True):
            modname = f[len(REPO) + 1:-3].replace("/", ".")
            tree = ast.parse(open(f).read())
            for n in tree.body:
                if isinstance(n, ast.ClassDef):
                    self.classes[n.name] = (n, modname)
                    for m in n.body:
                        if isinstance(m, ast.FunctionDef):
                            self.funcs[f"{n.name}.{m.name}"] = (m, modname)
                elif isinstance(n, ast.FunctionDef):
                    self.funcs[n.name] = (n, modname)
                elif isinstance(n, ast.Assign) and len(n.targets) == 1 and isinstance(n.targets[0], ast.Name):
                    self.consts[(modname, n.targets[0].id)] = n.value
    def bases(self, cls):
        node, _ = self.classes[cls]
        out = []
        for b in node.bases:
            name = b.id if isinstance(b, ast.Name) else (b.attr if isinstance(b, ast.Attribute) else None)
            if name in self.classes: out.append(name)
        return out
    def mro(self, cls):
        out = [cls]
        for b in self.bases(cls):
            for c in self.mro(b):
                if c not in out: out.append(c)
        return out
    def method(self, cls, name):
        for c in self.mro(cls):
            if f"{c}.{name}" in self.funcs: return c, self.funcs[f"{c}.{name}"][0]
        return None, None
    def field_type_local(self, c, field):
        node, _ = self.classes[c]
        for n in ast.walk(node):
            if isinstance(n, ast.AnnAssign):
                t = n.target
                if isinstance(t, ast.Attribute) and isinstance(t.value, ast.Name) and t.value.id == "self" and t.attr == field: return parse_type(n.annotation)
                if isinstance(t, ast.Name) and t.id == field: return parse_type(n.annotation)
        return None
    def field_type(self, cls, field):
        """sort hint from annotated assignments `self.f: T = ...` in __init__ / class-level annotations"""
        for c in self.mro(cls):
            node, _ = self.classes[c]
            for n in ast.walk(node):
                if isinstance(n, ast.AnnAssign):
                    t = n.target
                    if isinstance(t, ast.Attribute) and isinstance(t.value, ast.Name) and t.value.id == "self" and t.attr == field:
                        return parse_type(n.annotation)
                    if isinstance(t, ast.Name) and t.id == field:
                        return parse_type(n.annotation)
        return None

def parse_type(a):
    if isinstance(a, ast.Constant) and isinstance(a.value, str):
        return ("ref", a.value.strip('"'))
    if isinstance(a, ast.Name):
        return {"int": ("int",), "float": ("real",), "bool": ("bool",), "str": ("str",)}.get(a.id, ("ref", a.id))
    if isinstance(a, ast.Subscript):
        base = a.value.id if isinstance(a.value, ast.Name) else a.value.attr
        if base == "Optional": return ("opt", parse_type(a.slice))
        if base == "List": return ("list", parse_type(a.slice))
        if base == "Dict":
            k, v = a.slice.elts
            return ("dict", parse_type(k), parse_type(v))
        if base == "Union":
            return ("dyn",)
    if isinstance(a, ast.Attribute):
        return ("ref", a.attr)
    return ("dyn",)

SRC = Src()
FIELD_OVERRIDE = {  # hints where the source has no usable annotation
    ("Market", "is_buy"): ("bool",), ("OrderBook", "is_buy"): ("bool",), ("Market", "chunk_size"): ("int",),
    ("Market", "_executed_total_prices"): ("list", ("real",)), ("Agent", "cash_amount"): ("real",),
    ("Order", "kind"): ("kind",), ("PriceLimitRule", "simulator"): ("ref", "Simulator"), ("EventABC", "simulator"): ("ref", "Simulator"),
    ("EventABC", "session"): ("ref", "Session"), ("Simulator", "current_session"): ("opt", ("ref", "Session")),
    ("OrderMistakeShock", "target_market"): ("ref", "Market"), ("Market", "simulator"): ("ref", "Simulator"),
}
def field_owner(cls, field):
    own = cls
    for c in SRC.mro(cls):
        if (c, field) in FIELD_OVERRIDE or Src.field_type_local(SRC, c, field) is not None: own = c
    return own
def field_type(cls, field):
    for c in SRC.mro(cls):
        if (c, field) in FIELD_OVERRIDE: return FIELD_OVERRIDE[(c, field)]
    t = SRC.field_type(cls, field)
    if t is None: raise NotImplementedError(f"no sort hint for {cls}.{field}")
    return t

# ----------------------------------------------------------------------------- values
class V:
    def __init__(self, ty, term=None, none=None, py=None):
        self.ty, self.term, self.none, self.py = ty, term, none, py
    def __repr__(self): return f"V({self.ty},{self.term},{self.none},{self.py})"
def sort_of(ty):
    k = ty[0]
    if k in ("int", "ref", "list", "dict", "kind"): return z3.IntSort()
    if k == "real": return z3.RealSort()
    if k == "bool": return z3.BoolSort()
    if k == "str": return z3.StringSort()
    if k == "opt": return sort_of(ty[1])
    if k == "dyn": return DYN
    raise NotImplementedError(ty)
DYN = z3.DeclareSort("Dyn")           # opaque json value; projections below
dyn_is_int = z3.Function("dyn_is_int", DYN, z3.BoolSort()); dyn_int = z3.Function("dyn_int", DYN, z3.IntSort())
dyn_is_real = z3.Function("dyn_is_real", DYN, z3.BoolSort()); dyn_real = z3.Function("dyn_real", DYN, z3.RealSort())
dyn_is_bool = z3.Function("dyn_is_bool", DYN, z3.BoolSort()); dyn_bool = z3.Function("dyn_bool", DYN, z3.BoolSort())
RDIV = z3.Function("rdiv", z3.RealSort(), z3.RealSort(), z3.RealSort())
FLOOR = z3.Function("floor", z3.RealSort(), z3.IntSort()); CEIL = z3.Function("ceil", z3.RealSort(), z3.IntSort())
_fresh = itertools.count()
def fresh(ty, hint="v"):
    n = f"{hint}!{next(_fresh)}"
    if ty[0] == "opt":
        return V(ty, z3.Const(n, sort_of(ty)), none=z3.Bool(n + "_none"))
    return V(ty, z3.Const(n, sort_of(ty)))
def mkint(i): return V(("int",), z3.IntVal(i))
def mkbool(b): return V(("bool",), z3.BoolVal(b) if isinstance(b, bool) else b)
def to_real(v):
    if v.ty[0] == "real": return v.term
    if v.ty[0] == "int": return z3.ToReal(v.term)
    if v.ty[0] == "bool": return z3.If(v.term, z3.RealVal(1), z3.RealVal(0))
    raise NotImplementedError(v)
def truth(v):
    if v.ty[0] == "bool": return v.term
    if v.ty[0] == "int": return v.term != 0
    if v.ty[0] == "opt": return z3.Not(v.none)
    raise NotImplementedError(v)

# ----------------------------------------------------------------------------- state
class State:
    def __init__(self, env=None, heap=None, pc=None, obligations=None, trace=None):
        self.env = env or {}; self.heap = heap or {}; self.pc = pc or []
        self.obl = obligations if obligations is not None else []   # shared list of (name, pc, goal)
        self.trace = trace or []
    def copy(self): return State(dict(self.env), dict(self.heap), list(self.pc), self.obl, list(self.trace))
    # heap cells: key (cls, field, part) -> z3 array Ref -> sort
    def arr(self, cls, field, ty, part="val"):
        own = field_owner(cls, field)
        key = (own + "." + field, part)      # one map per (declaring class, field): Order.price and OrderLog.price never alias
        if key not in self.heap:
            srt = z3.BoolSort() if part == "none" else sort_of(ty)
            self.heap[key] = z3.Array(f"H_{own}_{field}_{part}", z3.IntSort(), srt)
        return key, self.heap[key]
    def read(self, obj, field):
        ty = field_type(obj.ty[1], field)
        k, a = self.arr(obj.ty[1], field, ty)
        if ty[0] == "opt":
            kn, an = self.arr(obj.ty[1], field, ty, "none")
            return V(ty, z3.Select(a, obj.term), none=z3.Select(an, obj.term))
        return V(ty, z3.Select(a, obj.term))
    def write(self, obj, field, val):
        ty = field_type(obj.ty[1], field)
        k, a = self.arr(obj.ty[1], field, ty)
        if ty[0] == "opt":
            kn, an = self.arr(obj.ty[1], field, ty, "none")
            if val.ty[0] == "none":
                self.heap[kn] = z3.Store(an, obj.term, z3.BoolVal(True))
            elif val.ty[0] == "opt":
                self.heap[kn] = z3.Store(an, obj.term, val.none); self.heap[k] = z3.Store(a, obj.term, coerce(val, ty[1]))
            else:
                self.heap[kn] = z3.Store(an, obj.term, z3.BoolVal(False)); self.heap[k] = z3.Store(a, obj.term, coerce(val, ty[1]))
        else:
            self.heap[k] = z3.Store(a, obj.term, coerce(val, ty))
    # lists: LLEN: ref->int ; LEL_<sort>: ref -> (int -> sort) ; for opt elements a parallel none-array
    def llen(self):
        if ("@len", "val") not in self.heap: self.heap[("@len", "val")] = z3.Array("L_len", z3.IntSort(), z3.IntSort())
        return self.heap[("@len", "val")]
    def lel(self, ety, part="val"):
        srt = z3.BoolSort() if part == "none" else sort_of(ety)
        key = (f"@el_{srt}", part)
        if key not in self.heap: self.heap[key] = z3.Array(f"L_el_{srt}_{part}", z3.IntSort(), z3.ArraySort(z3.IntSort(), srt))
        return key, self.heap[key]
    def list_get(self, lst, idx):
        ety = lst.ty[1]
        n = z3.Select(self.llen(), lst.term)
        i = z3.If(idx.term < 0, idx.term + n, idx.term)
        self.oblige("index-in-range", z3.And(i >= 0, i < n))
        k, a = self.lel(ety)
        if ety[0] == "opt":
            kn, an = self.lel(ety, "none")
            return V(ety, z3.Select(z3.Select(a, lst.term), i), none=z3.Select(z3.Select(an, lst.term), i))
        return V(ety, z3.Select(z3.Select(a, lst.term), i))
    def list_set(self, lst, idx, val):
        ety = lst.ty[1]
        n = z3.Select(self.llen(), lst.term)
        i = z3.If(idx.term < 0, idx.term + n, idx.term)
        self.oblige("index-in-range", z3.And(i >= 0, i < n))
        k, a = self.lel(ety)
        if ety[0] == "opt":
            kn, an = self.lel(ety, "none")
            if val.ty[0] == "none":
                self.heap[kn] = z3.Store(an, lst.term, z3.Store(z3.Select(an, lst.term), i, z3.BoolVal(True)))
                return
            flag = val.none if val.ty[0] == "opt" else z3.BoolVal(False)
            self.heap[kn] = z3.Store(an, lst.term, z3.Store(z3.Select(an, lst.term), i, flag))
            self.heap[k] = z3.Store(a, lst.term, z3.Store(z3.Select(a, lst.term), i, coerce(val, ety[1])))
        else:
            self.heap[k] = z3.Store(a, lst.term, z3.Store(z3.Select(a, lst.term), i, coerce(val, ety)))
    def oblige(self, name, goal):
        self.obl.append((name, list(self.pc), goal))
    def assume(self, c): self.pc.append(c)

def coerce(val, ty):
    if val.ty[0] == "opt": val = V(val.ty[1], val.term)
    if val.ty[0] == "dyn" and ty[0] != "dyn":
        if ty[0] == "int": return dyn_int(val.term)
        if ty[0] == "bool": return dyn_bool(val.term)
        if ty[0] == "real": return z3.If(dyn_is_int(val.term), z3.ToReal(dyn_int(val.term)), dyn_real(val.term))
        raise NotImplementedError(("dyn->", ty))
    if ty[0] == "real": return to_real(val)
    if ty[0] == "opt": return coerce(val, ty[1])
    if ty[0] == "int" and val.ty[0] == "bool": return z3.If(val.term, 1, 0)
    if ty[0] == "dyn" and val.ty[0] != "dyn": raise NotImplementedError("to dyn")
    return val.term

def _has_q(e, memo={}):
    i = e.get_id()
    if i not in memo: memo[i] = z3.is_quantifier(e) or any(_has_q(c) for c in e.children())
    return memo[i]
def feasible(pc):
    # pruning only: use the quantifier-free part of the path condition (over-approximates feasibility => sound, and fast)
    s = z3.Solver(); s.set("timeout", 2000); s.add(*[c for c in pc if not _has_q(c)]); return s.check() != z3.unsat

# ----------------------------------------------------------------------------- executor
class Unsupported(Exception): pass
KIND = {"MARKET_ORDER": 0, "LIMIT_ORDER": 1}

class Exec:
    def __init__(self, contracts=None, max_inline=4):
        self.contracts = contracts or {}
        self.max_inline = max_inline
    # ---- expressions: returns list of (state, value)
    def ev(self, e, st, depth=0):
        m = getattr(self, "ev_" + type(e).__name__, None)
        if m is None: raise Unsupported(f"expr {type(e).__name__} line {getattr(e,'lineno','?')}: {ast.unparse(e)[:60]}")
        return m(e, st, depth)
    def ev_Constant(self, e, st, d):
        v = e.value
        if v is None: return [(st, V(("none",)))]
        if isinstance(v, bool): return [(st, mkbool(v))]
        if isinstance(v, int): return [(st, mkint(v))]
        if isinstance(v, float): return [(st, V(("real",), z3.RealVal(repr(v))))]
        if isinstance(v, str): return [(st, V(("str",), z3.StringVal(v), py=v))]
        raise Unsupported(v)
    def ev_Name(self, e, st, d):
        if e.id in st.env: return [(st, st.env[e.id])]
        if e.id in KIND: return [(st, V(("kind",), z3.IntVal(KIND[e.id])))]
        raise Unsupported(f"name {e.id}")
    def ev_Attribute(self, e, st, d):
        out = []
        for s1, o in self.ev(e.value, st, d):
            if o.ty[0] == "opt" and o.ty[1][0] == "ref":
                s1.oblige("attr-on-None", z3.Not(o.none)); o = V(o.ty[1], o.term)
            if o.ty[0] != "ref": raise Unsupported(f"attribute {e.attr} on {o.ty}")
            # property?
            c, fn = SRC.method(o.ty[1], e.attr)
            if fn is not None and any(isinstance(dec, ast.Name) and dec.id == "property" for dec in fn.decorator_list):
                out += self.call_function(fn, c, [o], {}, s1, d)
            else:
                out.append((s1, s1.read(o, e.attr)))
        return out
    def ev_Subscript(self, e, st, d):
        out = []
        for s1, base in self.ev(e.value, st, d):
            if isinstance(e.slice, ast.Slice): raise Unsupported("slice")
            for s2, idx in self.ev(e.slice, s1, d):
                if base.ty[0] == "list":
                    s2 = s2.copy(); out.append((s2, s2.list_get(base, idx)))
                elif base.ty[0] == "dict":
                    s2 = s2.copy(); out.append((s2, self.dict_get(s2, base, idx)))
                else: raise Unsupported(f"subscript on {base.ty}")
        return out
    # dict model: per dict-type maps  dom: ref -> (key -> bool), val: ref -> (key -> sort)
    def dict_arrays(self, st, dty):
        ks, vs = sort_of(dty[1]), sort_of(dty[2])
        kd, kv = (f"@ddom_{ks}_{vs}", "val"), (f"@dval_{ks}_{vs}", "val")
        if kd not in st.heap:
            st.heap[kd] = z3.Array(f"D_dom_{ks}_{vs}", z3.IntSort(), z3.ArraySort(ks, z3.BoolSort()))
            st.heap[kv] = z3.Array(f"D_val_{ks}_{vs}", z3.IntSort(), z3.ArraySort(ks, vs))
        return kd, kv
    def dict_get(self, st, dct, key):
        kd, kv = self.dict_arrays(st, dct.ty)
        st.oblige("key-present", z3.Select(z3.Select(st.heap[kd], dct.term), key.term))
        return V(dct.ty[2], z3.Select(z3.Select(st.heap[kv], dct.term), key.term))
    def dict_has(self, st, dct, key):
        kd, kv = self.dict_arrays(st, dct.ty)
        return z3.Select(z3.Select(st.heap[kd], dct.term), key.term)
    def dict_set(self, st, dct, key, val):
        kd, kv = self.dict_arrays(st, dct.ty)
        st.heap[kd] = z3.Store(st.heap[kd], dct.term, z3.Store(z3.Select(st.heap[kd], dct.term), key.term, z3.BoolVal(True)))
        st.heap[kv] = z3.Store(st.heap[kv], dct.term, z3.Store(z3.Select(st.heap[kv], dct.term), key.term, coerce(val, dct.ty[2])))
    def ev_UnaryOp(self, e, st, d):
        out = []
        for s1, v in self.ev(e.operand, st, d):
            if isinstance(e.op, ast.Not): out.append((s1, mkbool(z3.Not(truth(v)))))
            elif isinstance(e.op, ast.USub): out.append((s1, V(v.ty, -v.term)))
            else: raise Unsupported("unary")
        return out
    def ev_BinOp(self, e, st, d):
        out = []
        for s1, l in self.ev(e.left, st, d):
            for s2, r in self.ev(e.right, s1, d):
                out.append((s2, self.binop(e.op, l, r, s2)))
        return out
    def binop(self, op, l, r, st):
        for x in (l, r):
            if x.ty[0] == "opt":
                st.oblige("operand-not-None", z3.Not(x.none))
        lt = l.ty[1][0] if l.ty[0] == "opt" else l.ty[0]; rt = r.ty[1][0] if r.ty[0] == "opt" else r.ty[0]
        if lt == "dyn" or rt == "dyn": raise Unsupported("arith on dyn")
        both_int = lt in ("int", "bool") and rt in ("int", "bool")
        if isinstance(op, ast.Div):
            a, b = to_real(V((lt,), l.term)), to_real(V((rt,), r.term))
            st.oblige("div-by-zero", b != 0)
            q = RDIV(a, b); st.assume(q * b == a)      # division = uninterpreted function + defining product instance (congruence shares quotients)
            return V(("real",), q)
        if both_int:
            a = l.term if lt == "int" else z3.If(l.term, 1, 0); b = r.term if rt == "int" else z3.If(r.term, 1, 0)
            if isinstance(op, ast.Add): return V(("int",), a + b)
            if isinstance(op, ast.Sub): return V(("int",), a - b)
            if isinstance(op, ast.Mult): return V(("int",), a * b)
            if isinstance(op, ast.FloorDiv): st.oblige("div-by-zero", b != 0); return V(("int",), a / b)   # z3 int div = floor for b>0
            if isinstance(op, ast.Mod): st.oblige("div-by-zero", b != 0); return V(("int",), a % b)
        a, b = to_real(V((lt,), l.term)), to_real(V((rt,), r.term))
        if isinstance(op, ast.Add): return V(("real",), a + b)
        if isinstance(op, ast.Sub): return V(("real",), a - b)
        if isinstance(op, ast.Mult): return V(("real",), a * b)
        if isinstance(op, ast.Mod):   # python float %, divisor>0 assumed by obligation
            st.oblige("mod-positive-divisor", b > 0)
            qr = RDIV(a, b); q = FLOOR(qr)
            st.assume(z3.And(qr * b == a, z3.ToReal(q) <= qr, qr < z3.ToReal(q) + 1))
            return V(("real",), a - z3.ToReal(q) * b)
        raise Unsupported(f"binop {type(op).__name__}")
    def ev_BoolOp(self, e, st, d):
        def rec(vals, st):
            if len(vals) == 1: return [(s, mkbool(truth(v))) for s, v in self.ev(vals[0], st, d)]
            out = []
            for s1, v in self.ev(vals[0], st, d):
                t = truth(v)
                if isinstance(e.op, ast.And):
                    sa = s1.copy(); sa.assume(z3.Not(t)); out.append((sa, mkbool(False)))
                    sb = s1.copy(); sb.assume(t); out += rec(vals[1:], sb)
                else:
                    sa = s1.copy(); sa.assume(t); out.append((sa, mkbool(True)))
                    sb = s1.copy(); sb.assume(z3.Not(t)); out += rec(vals[1:], sb)
            return [(s, v) for s, v in out if feasible(s.pc)]
        return rec(e.values, st)
    def ev_IfExp(self, e, st, d):
        out = []
        for s1, c in self.ev(e.test, st, d):
            t = truth(c)
            for br, cond in ((e.body, t), (e.orelse, z3.Not(t))):
                s2 = s1.copy(); s2.assume(cond)
                if feasible(s2.pc): out += self.ev(br, s2, d)
        return out
    def ev_Compare(self, e, st, d):
        if len(e.ops) != 1:
            # a <= b <= c  ==> (a <= b) and (b <= c)
            parts = []; left = e.left
            for op, right in zip(e.ops, e.comparators):
                parts.append(ast.Compare(left=left, ops=[op], comparators=[right])); left = right
            return self.ev(ast.BoolOp(op=ast.And(), values=parts), st, d)
        out = []
        for s1, l in self.ev(e.left, st, d):
            for s2, r in self.ev(e.comparators[0], s1, d):
                s2 = s2.copy(); out.append((s2, self.compare(e.ops[0], l, r, s2)))
        return out
    def compare(self, op, l, r, st):
        if isinstance(op, (ast.Is, ast.IsNot)):
            if r.ty[0] != "none": raise Unsupported("is on non-None")
            t = l.none if l.ty[0] == "opt" else z3.BoolVal(l.ty[0] == "none")
            return mkbool(t if isinstance(op, ast.Is) else z3.Not(t))
        if isinstance(op, (ast.In, ast.NotIn)):
            if r.ty[0] == "dict":
                t = self.dict_has(st, r, l); return mkbool(t if isinstance(op, ast.In) else z3.Not(t))
            if r.ty[0] == "dictvalues":
                fnm = z3.Function("in_values", z3.IntSort(), sort_of(r.ty[1][2]), z3.BoolSort())
                t = fnm(r.term, l.term); return mkbool(t if isinstance(op, ast.In) else z3.Not(t))
            raise Unsupported("in on " + str(r.ty))
        def num(x):
            if x.ty[0] == "opt":
                return V(x.ty[1], x.term)
            return x
        if isinstance(op, (ast.Eq, ast.NotEq)):
            if l.ty[0] == "none" or r.ty[0] == "none":
                o = r if l.ty[0] == "none" else l
                t = o.none if o.ty[0] == "opt" else z3.BoolVal(o.ty[0] == "none")
            elif l.ty[0] == "opt" and r.ty[0] == "opt":
                t = z3.Or(z3.And(l.none, r.none), z3.And(z3.Not(l.none), z3.Not(r.none), self.eq(num(l), num(r))))
            elif l.ty[0] == "opt" or r.ty[0] == "opt":
                o, p = (l, r) if l.ty[0] == "opt" else (r, l)
                t = z3.And(z3.Not(o.none), self.eq(num(o), p))
            else: t = self.eq(l, r)
            return mkbool(t if isinstance(op, ast.Eq) else z3.Not(t))
        for x in (l, r):
            if x.ty[0] == "opt": st.oblige("compare-not-None", z3.Not(x.none))
            if x.ty[0] == "none": raise Unsupported("ordering with None")
        l, r = num(l), num(r)
        if l.ty[0] in ("int", "bool") and r.ty[0] in ("int", "bool"): a, b = coerce(l, ("int",)), coerce(r, ("int",))
        else: a, b = to_real(l), to_real(r)
        return mkbool({ast.Lt: a < b, ast.LtE: a <= b, ast.Gt: a > b, ast.GtE: a >= b}[type(op)])
    def eq(self, l, r):
        if l.ty[0] in ("int", "real", "bool") and r.ty[0] in ("int", "real", "bool") and l.ty != r.ty:
            return to_real(l) == to_real(r)
        return l.term == r.term
    def ev_Call(self, e, st, d):
        f = e.func
        # evaluate args left to right
        def eval_args(st):
            states = [(st, [], {})]
            for a in e.args:
                states = [(s2, pos + [v], kw) for s1, pos, kw in states for s2, v in self.ev(a, s1, d)]
            for k in e.keywords:
                states = [(s2, pos, {**kw, k.arg: v}) for s1, pos, kw in states for s2, v in self.ev(k.value, s1, d)]
            return states
        if isinstance(f, ast.Name):
            n = f.id
            if n == "cast": return self.ev(e.args[1], st, d)
            if n == "isinstance":
                cls = e.args[1]; cname = cls.id if isinstance(cls, ast.Name) else None
                out = []
                for s1, v in self.ev(e.args[0], st, d):
                    if v.ty[0] == "dyn":
                        t = {"int": z3.Or(dyn_is_int(v.term), dyn_is_bool(v.term)), "float": dyn_is_real(v.term), "bool": dyn_is_bool(v.term)}.get(cname)
                        if t is None: raise Unsupported("isinstance dyn " + str(cname))
                        out.append((s1, mkbool(t)))
                    else: raise Unsupported("isinstance static " + str(v.ty))
                return out
            out = []
            for s1, pos, kw in eval_args(st):
                s1 = s1.copy()
                pos = [self.unwrap(p, s1) for p in pos]
                if n == "abs":
                    v = pos[0]; out.append((s1, V(v.ty, z3.If(v.term >= 0, v.term, -v.term))))
                elif n in ("min", "max") and len(pos) == 2:
                    a, b = pos
                    ty = ("int",) if a.ty[0] == "int" and b.ty[0] == "int" else ("real",)
                    x, y = (a.term, b.term) if ty[0] == "int" else (to_real(a), to_real(b))
                    out.append((s1, V(ty, z3.If((x <= y) if n == "min" else (x >= y), x, y))))
                elif n == "float":
                    v = pos[0]
                    if v.ty[0] == "dyn": out.append((s1, V(("real",), z3.If(dyn_is_int(v.term), z3.ToReal(dyn_int(v.term)), dyn_real(v.term)))))
                    else: out.append((s1, V(("real",), to_real(v))))
                elif n == "int":
                    v = pos[0]
                    if v.ty[0] == "dyn":
                        s1.oblige("int()-of-int-json", dyn_is_int(v.term)); out.append((s1, V(("int",), dyn_int(v.term))))
                    elif v.ty[0] == "int": out.append((s1, v))
                    else: raise Unsupported("int(real)")
                elif n == "isinstance":
                    v, cls = pos[0], e.args[1]
                    cname = cls.id if isinstance(cls, ast.Name) else None
                    if v.ty[0] == "dyn":
                        t = {"int": z3.Or(dyn_is_int(v.term), dyn_is_bool(v.term)), "float": dyn_is_real(v.term), "bool": dyn_is_bool(v.term)}.get(cname)
                        if t is None: raise Unsupported("isinstance dyn " + str(cname))
                        out.append((s1, mkbool(t)))
                    else: raise Unsupported("isinstance static")
                elif n == "len":
                    v = pos[0]
                    if v.ty[0] != "list": raise Unsupported("len of " + str(v.ty))
                    out.append((s1, V(("int",), z3.Select(s1.llen(), v.term))))
                elif n in ("AssertionError", "ValueError", "NotImplementedError", "AttributeError"):
                    out.append((s1, V(("exc", n))))
                elif n in SRC.classes and ("ctor", n) in self.contracts:
                    out += self.contracts[("ctor", n)](self, s1, pos, kw)
                else: raise Unsupported(f"call {n}")
            return out
        if isinstance(f, ast.Attribute):
            # module functions
            if isinstance(f.value, ast.Name) and f.value.id == "math" and f.attr in ("floor", "ceil"):
                out = []
                for s1, pos, kw in eval_args(st):
                    s1 = s1.copy(); x = to_real(pos[0]); k = FLOOR(x) if f.attr == "floor" else CEIL(x)
                    s1.assume(z3.And(z3.ToReal(k) <= x, x < z3.ToReal(k) + 1) if f.attr == "floor" else z3.And(z3.ToReal(k) - 1 < x, x <= z3.ToReal(k)))
                    out.append((s1, V(("int",), k)))
                return out
            if isinstance(f.value, ast.Name) and f.value.id == "warnings": return [(st, V(("none",)))]
            out = []
            for s0, recv in self.ev(f.value, st, d):
                for s1, pos, kw in [(s, p, k) for (s, p, k) in self._args_on(e, s0, d)]:
                    out += self.call_method(recv, f.attr, pos, kw, s1, d, e)
            return out
        raise Unsupported("call form")
    def unwrap(self, v, st):
        if v.ty[0] == "opt":
            st.oblige("operand-not-None", z3.Not(v.none)); return V(v.ty[1], v.term)
        return v
    def _args_on(self, e, st, d):
        states = [(st, [], {})]
        for a in e.args:
            states = [(s2, pos + [v], kw) for s1, pos, kw in states for s2, v in self.ev(a, s1, d)]
        for k in e.keywords:
            states = [(s2, pos, {**kw, k.arg: v}) for s1, pos, kw in states for s2, v in self.ev(k.value, s1, d)]
        return states
    def call_method(self, recv, name, pos, kw, st, d, node):
        if recv.ty[0] == "opt" and recv.ty[1][0] == "ref":
            st = st.copy(); st.oblige("call-on-None", z3.Not(recv.none)); recv = V(recv.ty[1], recv.term)
        if recv.ty[0] == "list" and name == "append":
            st = st.copy(); n = z3.Select(st.llen(), recv.term)
            st.heap[("@len", "val")] = z3.Store(st.llen(), recv.term, n + 1)
            st.list_set(recv, V(("int",), n), pos[0]); st.obl.pop()   # index obligation trivially true after growing
            return [(st, V(("none",)))]
        if recv.ty[0] == "dict" and name == "values":
            return [(st, V(("dictvalues", recv.ty), recv.term))]
        if recv.ty[0] != "ref": raise Unsupported(f"method {name} on {recv.ty}")
        key = (recv.ty[1], name)
        for c in SRC.mro(recv.ty[1]):
            if (c, name) in self.contracts:
                return self.contracts[(c, name)](self, st.copy(), recv, pos, kw)
        c, fn = SRC.method(recv.ty[1], name)
        if fn is None: raise Unsupported(f"no method {recv.ty[1]}.{name}")
        if d >= self.max_inline: raise Unsupported(f"inline depth at {recv.ty[1]}.{name}")
        return self.call_function(fn, c, [recv] + pos, kw, st, d + 1)
    def call_function(self, fn, cls, pos, kw, st, d):
        params = [a.arg for a in fn.args.args]
        env = {}
        for p, v in zip(params, pos): env[p] = v
        for k, v in kw.items(): env[k] = v
        ndef = len(fn.args.defaults)
        for p, dflt in zip(params[len(params) - ndef:], fn.args.defaults):
            if p not in env:
                env[p] = self.ev(dflt, State(), d)[0][1]
        missing = [p for p in params if p not in env]
        if missing: raise Unsupported(f"missing args {missing} for {fn.name}")
        s0 = st.copy(); saved = s0.env; s0.env = env
        out = []
        for s1, kind, val in self.run(fn.body, s0, d):
            s1.env = saved
            if kind in ("return", "fall"):
                out.append((s1, val if kind == "return" else V(("none",))))
            else:
                self.escaped.append((s1, kind, val))
        return out
    # ---- statements: returns list of (state, kind, value) with kind in fall/return/raise
    def run(self, stmts, st, d=0):
        if not stmts: return [(st, "fall", None)]
        s, rest = stmts[0], stmts[1:]
        m = getattr(self, "st_" + type(s).__name__, None)
        if m is None: raise Unsupported(f"stmt {type(s).__name__} line {s.lineno}")
        out = []
        for s1, kind, val in m(s, st, d):
            if kind == "fall": out += self.run(rest, s1, d)
            else: out.append((s1, kind, val))
        return out
    def st_Expr(self, s, st, d):
        if isinstance(s.value, ast.Constant): return [(st, "fall", None)]
        return [(s1, "fall", None) for s1, _ in self.ev(s.value, st, d)]
    def st_Pass(self, s, st, d): return [(st, "fall", None)]
    def st_Return(self, s, st, d):
        if s.value is None: return [(st, "return", V(("none",)))]
        return [(s1, "return", v) for s1, v in self.ev(s.value, st, d)]
    def st_Raise(self, s, st, d):
        name = s.exc.func.id if isinstance(s.exc, ast.Call) else getattr(s.exc, "id", "?")
        return [(st, "raise", f"{name}@{s.lineno}")]
    def st_Assert(self, s, st, d):
        out = []
        for s1, c in self.ev(s.test, st, d):
            t = truth(c)
            sa = s1.copy(); sa.assume(z3.Not(t))
            if feasible(sa.pc): out.append((sa, "raise", "AssertionError"))
            sb = s1.copy(); sb.assume(t); out.append((sb, "fall", None))
        return out
    def assign(self, target, val, st, d):
        if isinstance(target, ast.Name):
            st = st.copy(); st.env[target.id] = val; return [st]
        if isinstance(target, ast.Attribute):
            out = []
            for s1, o in self.ev(target.value, st, d):
                s1 = s1.copy()
                if o.ty[0] == "opt" and o.ty[1][0] == "ref":
                    s1.oblige("attr-on-None", z3.Not(o.none)); o = V(o.ty[1], o.term)
                s1.write(o, target.attr, val); out.append(s1)
            return out
        if isinstance(target, ast.Subscript):
            out = []
            for s1, base in self.ev(target.value, st, d):
                for s2, idx in self.ev(target.slice, s1, d):
                    s2 = s2.copy()
                    if base.ty[0] == "list": s2.list_set(base, idx, val)
                    elif base.ty[0] == "dict": self.dict_set(s2, base, idx, val)
                    else: raise Unsupported("subscript store")
                    out.append(s2)
            return out
        raise Unsupported("assign target")
    def st_Assign(self, s, st, d):
        out = []
        for s1, v in self.ev(s.value, st, d):
            states = [s1]
            for t in s.targets:
                states = [s3 for s2 in states for s3 in self.assign(t, v, s2, d)]
            out += [(s2, "fall", None) for s2 in states]
        return out
    def st_AnnAssign(self, s, st, d):
        if s.value is None: return [(st, "fall", None)]
        out = []
        for s1, v in self.ev(s.value, st, d):
            if isinstance(s.target, ast.Name) and v.ty[0] == "none":
                v = V(parse_type(s.annotation), None, none=z3.BoolVal(True)) if parse_type(s.annotation)[0] == "opt" else v
                if v.ty[0] == "opt": v = V(v.ty, z3.FreshConst(sort_of(v.ty)), none=z3.BoolVal(True))
            out += [(s2, "fall", None) for s2 in self.assign(s.target, v, s1, d)]
        return out
    def st_AugAssign(self, s, st, d):
        load = ast.BinOp(left=to_load(s.target), op=s.op, right=s.value)
        ast.copy_location(load, s)
        return self.st_Assign(ast.Assign(targets=[s.target], value=load, lineno=s.lineno), st, d)
    def st_If(self, s, st, d):
        out = []
        for s1, c in self.ev(s.test, st, d):
            t = truth(c)
            for body, cond in ((s.body, t), (s.orelse, z3.Not(t))):
                s2 = s1.copy(); s2.assume(cond)
                if feasible(s2.pc): out += self.run(body, s2, d)
        return out
    def st_For(self, s, st, d):
        # for-each with a user supplied invariant: contracts[("loop", id)] = (inv(state, i, seq) -> [goals], havoc spec)
        spec = self.loop_specs.get((self.current, s.lineno)) or self.loop_specs.get((self.current, ast.unparse(s.iter)))
        if spec is None: raise Unsupported(f"for loop without invariant line {s.lineno}")
        return spec(self, s, st, d)

def to_load(t):
    t2 = ast.parse(ast.unparse(t), mode="eval").body
    return t2

# ----------------------------------------------------------------------------- proving
RESULTS = []
PURIFIED = [0]
CVC5 = [0]
def discharge(title, obligations, extra_goals, assumptions=()):
    """obligations: list of (name, pc, goal) collected during execution; extra_goals: (name, pc, goal)"""
    ok = True; n = 0; t0 = time.time(); failed = []
    from purify import purify
    for name, pc, goal in list(obligations) + list(extra_goals):
        s = z3.Solver(); s.set("timeout", 3000)
        s.add(*assumptions); s.add(*pc); s.add(z3.Not(goal)); r = s.check(); n += 1
        if r == z3.unknown:
            # escalation: cvc5 on the SMT-LIB export of the same query
            import subprocess, tempfile, os as _os
            with tempfile.NamedTemporaryFile("w", suffix=".smt2", delete=False) as f:
                f.write("(set-logic ALL)\n" + s.to_smt2()); fn = f.name
            try:
                out = subprocess.run(["cvc5", "--tlimit=30000", fn], capture_output=True, text=True, timeout=45).stdout.strip()
            except Exception: out = ""
            _os.unlink(fn)
            if out.startswith("unsat"): r = z3.unsat; CVC5[0] += 1
        if r == z3.unknown:
            # escalation step 1b: keep the query small -- drop hypothesis groups the goal does not mention (sound: fewer hypotheses)
            gtxt = str(goal)
            groups = [g for g in ("TAG_phase1", "G_fh", "G_idx") if g not in gtxt]
            for drop in ([groups] if len(groups) > 1 else []) + [[g] for g in groups]:
                keep = [c for c in pc if not any(g in str(c) for g in drop)]
                s1b = z3.Solver(); s1b.set("timeout", int(__import__("os").environ.get("MID_MS", "8000"))); s1b.add(*assumptions); s1b.add(*keep); s1b.add(z3.Not(goal))
                if s1b.check() == z3.unsat: r = z3.unsat; break
        if r == z3.unknown:
            # escalation step 2: purify (array reads / UF applications -> fresh constants); unsat of the abstraction is sound
            s2 = z3.Solver(); s2.set("timeout", int(__import__("os").environ.get("LONG_MS", "20000"))); s2.add(*purify(list(assumptions) + list(pc) + [z3.Not(goal)]))
            if s2.check() == z3.unsat: r = z3.unsat; PURIFIED[0] += 1
        if r != z3.unsat:
            ok = False; failed.append((name, str(r), s.model() if r == z3.sat else None))
    RESULTS.append((title, n, len(failed), round(time.time() - t0, 2)))
    print(f"[{'OK ' if ok else 'RED'}] {title}: {n} obligations, {len(failed)} not discharged, {time.time()-t0:.2f}s  (by cvc5 after z3 unknown: {CVC5[0]}, after purification: {PURIFIED[0]})")
    for name, r, m in failed[:4]:
        print("      -", name, r, (str(m)[:300].replace("\n", " ") if m is not None else ""))
    return ok, failed

def sym_obj(cls, name): return V(("ref", cls), z3.Int(name))

def run_function(qual, env, contracts=None, loop_specs=None, pre=None):
    fn, mod = SRC.funcs[qual]
    ex = Exec(contracts or {}); ex.loop_specs = loop_specs or {}; ex.current = qual; ex.escaped = []
    st = State(env=dict(env));
    for c in (pre(st) if pre else []): st.assume(c)
    outs = ex.run(fn.body, st)
    return ex, outs

if __name__ == "__main__":
    import spike_cases
    spike_cases.main()
    print("obligations discharged only after purification:", PURIFIED[0])
