"""Spike part 3: utils.json_extends on the real AST: dict views, while loop with invariant + variant, spec recursion `resolved`."""
import ast, z3, time
from spike import *
import spike

K = z3.StringSort()          # keys / names
DV = spike.DYN               # values (json)
askey = z3.Function("as_key", DV, K)      # a json string value used as a key
EXT = z3.StringVal("extends")
# whole_json: name -> dict ; modelled by wdom(name), and per-name dict views cdom(name,key), cval(name,key)
wdom = z3.Function("whole_has", K, z3.BoolSort())
cdom = z3.Function("cfg_has", K, K, z3.BoolSort()); cval = z3.Function("cfg_val", K, K, DV)
tdom = z3.Function("target_has", K, z3.BoolSort()); tval = z3.Function("target_val", K, DV)
excl = z3.Function("excluded", K, z3.BoolSort())
# chain: name(n) for n>=1 ; c_0 = target, c_n = whole[name(n)]
name = z3.Function("chain_name", z3.IntSort(), K)
def c_has(n, k): return z3.If(n == 0, tdom(k), cdom(name(n), k))
def c_val(n, k): return z3.If(n == 0, tval(k), cval(name(n), k))
rdom = z3.Function("resolved_has", z3.IntSort(), K, z3.BoolSort()); rval = z3.Function("resolved_val", z3.IntSort(), K, DV)
def unfold(n, k):
    """defining equations of the spec function `resolved` at (n,k), k != extends"""
    return [rdom(0, k) == tdom(k), rval(0, k) == tval(k),
            rdom(n + 1, k) == z3.Or(rdom(n, k), z3.And(c_has(n + 1, k), z3.Not(excl(k)))),
            rval(n + 1, k) == z3.If(rdom(n, k), rval(n, k), c_val(n + 1, k))]

# The loop body is executed symbolically from the real AST with a tiny dict/str interpreter specialised to this function
fn, _ = SRC.funcs["json_extends"]
loop = [n for n in fn.body if isinstance(n, ast.While)][0]
print("loop header :", ast.unparse(loop.test))
print("loop body   :"); [print("    ", ast.unparse(s).replace("\n", " ")[:150]) for s in loop.body]

# state: results (rd: K->Bool, rv: K->DV), history (hd: K->Bool membership + length), n (ghost)
class S:
    def __init__(s, tag):
        s.rd = z3.Array("res_dom" + tag, K, z3.BoolSort()); s.rv = z3.Array("res_val" + tag, K, DV)
        s.hmem = z3.Array("hist_mem" + tag, K, z3.BoolSort()); s.hlen = z3.Int("hist_len" + tag); s.n = z3.Int("n" + tag)
parent = z3.Const("parent_name", K)
def inv(s):
    k = z3.Const("k", K); i = z3.Int("i")
    return [s.n >= 0, s.hlen == s.n + 1,
            z3.ForAll([k], z3.Implies(k != EXT, z3.And(s.rd[k] == rdom(s.n, k), z3.Implies(s.rd[k], s.rv[k] == rval(s.n, k))))),
            s.rd[EXT] == z3.And(c_has(s.n, EXT), z3.Or(s.n == 0, z3.Not(excl(EXT)))),
            z3.Implies(s.rd[EXT], s.rv[EXT] == c_val(s.n, EXT)),
            z3.ForAll([k], s.hmem[k] == z3.Or(k == parent, z3.Exists([i], z3.And(1 <= i, i <= s.n, name(i) == k)))),
            z3.ForAll([i], z3.Implies(z3.And(1 <= i, i <= s.n), wdom(name(i))))]

def interpret_body(s0, s1):
    """symbolic execution of the real loop body statements (pattern per statement, asserted against the AST text so an edit is noticed)"""
    expected = ["extends_class: str = results['extends']", "results.pop('extends')",
                "if extends_class not in whole_json:", "if extends_class in extending_history:",
                "extending_history.append(extends_class)", "extending_dict: Dict = whole_json[extends_class]",
                "results = dict([(key, value) for key, value in extending_dict.items() if key not in excludes_fields_], **results)"]
    got = [ast.unparse(st).split("\n")[0] for st in loop.body]
    assert got == expected, got
    hyps = []; obligations = []
    ext = askey(s0.rv[EXT])                                   # extends_class = results["extends"]
    obligations.append(("key-present results['extends']", s0.rd[EXT]))
    rd1 = z3.Store(s0.rd, EXT, False)                         # results.pop("extends")
    raises_missing = z3.Not(wdom(ext)); raises_cycle = s0.hmem[ext]
    hyps += [z3.Not(raises_missing), z3.Not(raises_cycle)]     # continuing path
    k = z3.Const("k", K)
    hyps += [s1.hmem == z3.Store(s0.hmem, ext, True), s1.hlen == s0.hlen + 1]          # history.append
    # results = dict([(key, value) for key, value in whole[ext].items() if key not in excludes], **results)
    hyps += [z3.ForAll([k], s1.rd[k] == z3.Or(rd1[k], z3.And(cdom(ext, k), z3.Not(excl(k))))),
             z3.ForAll([k], s1.rv[k] == z3.If(rd1[k], s0.rv[k], cval(ext, k)))]
    # ghost: chain grows
    hyps += [s1.n == s0.n + 1, name(s0.n + 1) == ext]
    return hyps, obligations, (raises_missing, raises_cycle, ext)

def prove(title, hyps, goals, timeout=20000):
    bad = []; t0 = time.time()
    for nm, g in goals:
        s = z3.Solver(); s.set("timeout", timeout); s.add(*hyps); s.add(z3.Not(g)); r = s.check()
        if r != z3.unsat: bad.append((nm, str(r)))
    print(f"[{'OK ' if not bad else 'RED'}] {title}: {len(goals)} goals, {len(bad)} not discharged, {time.time()-t0:.2f}s", bad[:5])

s0, s1 = S("0"), S("1")
k = z3.Const("k", K)
hyps, obl, (rm, rc, ext) = interpret_body(s0, s1)
H = inv(s0) + [s0.rd[EXT]] + hyps + [f for kk in [k] for f in []]
# defining equations of resolved at (n0, any k): supply as quantified axioms
n_ = z3.Int("n_"); axioms = [z3.ForAll([n_, k], z3.Implies(n_ >= 0, z3.And(*unfold(n_, k)[2:]))), z3.ForAll([k], z3.And(*unfold(0, k)[:2]))]
prove("json_extends loop: invariant preserved by the real body", H + axioms, [(f"inv#{i}", g) for i, g in enumerate(inv(s1))] + [(o[0], o[1]) for o in obl])
# init: results = target.copy(), history=[parent]
init = S("i"); hI = [init.n == 0, init.hlen == 1, z3.ForAll([k], init.rd[k] == tdom(k)), z3.ForAll([k], init.rv[k] == tval(k)),
                     z3.ForAll([k], init.hmem[k] == (k == parent))]
prove("json_extends loop: invariant holds initially", hI + axioms, [(f"inv#{i}", g) for i, g in enumerate(inv(init))])
# exit: not ("extends" in results)  ==> result[k] == resolved(n,k) for all k, and 'extends' absent
prove("json_extends exit => postcondition", inv(s0) + [z3.Not(s0.rd[EXT])] + axioms,
      [("post: result = resolved(n, .)", z3.ForAll([k], z3.And(s0.rd[k] == z3.And(k != EXT, rdom(s0.n, k)), z3.Implies(s0.rd[k], s0.rv[k] == rval(s0.n, k)))))])
# variant: number of names of whole_json not yet in history strictly decreases: new name is in whole and not in history
prove("json_extends variant: appended name is a key of whole_json not seen before", inv(s0) + [s0.rd[EXT]] + hyps, [("fresh name", z3.And(wdom(ext), z3.Not(s0.hmem[ext])))])
prove("canary", H + axioms, [("false", z3.BoolVal(False))], timeout=3000)
