"""Spike part 5: trace contract for one element of a batch in SequentialRunner._handle_orders (real AST, normal and HFT copy)."""
import ast, z3, itertools
import spike
from spike import *

spike.FIELD_OVERRIDE.update({("Runner", "simulator"): ("ref", "Simulator"), ("SequentialRunner", "simulator"): ("ref", "Simulator"),
                             ("Cancel", "order"): ("ref", "Order")})
_n = itertools.count(5000)
def newref(cls): return V(("ref", cls), z3.Int(f"{cls}!{next(_n)}"))

class TraceExec(Exec):
    def ev_Call(self, e, st, d):
        f = e.func
        if isinstance(f, ast.Name) and f.id == "isinstance":
            out = []
            for s1, v in self.ev(e.args[0], st, d):
                cname = e.args[1].id
                if v.ty[0] == "ref": out.append((s1, mkbool(cname in SRC.mro(v.ty[1]))))
                else: raise Unsupported("isinstance")
            return out
        return super().ev_Call(e, st, d)
    def st_For(self, s, st, d):
        # for-each fragment: body has no break/continue/return -> summarise as ForEach(iter, body-trace of a generic element)
        assert not any(isinstance(n, (ast.Break, ast.Continue, ast.Return)) for n in ast.walk(s)), "not in the for-each fragment"
        out = []
        for s1, it in self.ev(s.iter, st, d):
            elem = newref("ExecutionLog"); sb = s1.copy(); sb.env[s.target.id] = elem; sb.trace = []
            bodies = self.run(s.body, sb, d)
            assert len(bodies) == 1 and bodies[0][1] == "fall", "for-each body must be straight-line here"
            s2 = s1.copy(); s2.trace = s1.trace + [("ForEach", it.term, elem.term, tuple(bodies[0][0].trace))]
            out.append((s2, "fall", None))
        return out

def ev(name, *args): return (name,) + tuple(a.term if isinstance(a, V) else a for a in args)
def contracts():
    c = {}
    def emit(evname, ret=None):
        def f(ex, st, recv, pos, kw):
            args = pos + list(kw.values())
            r = newref(ret) if ret else V(("none",))
            st.trace = st.trace + [ev(evname, recv, *args) + ((r.term,) if ret else ())]
            return [(st, r)]
        return f
    c[("Simulator", "_trigger_event_before_order")] = emit("HookBO"); c[("Simulator", "_trigger_event_after_order")] = emit("HookAO")
    c[("Simulator", "_trigger_event_before_cancel")] = emit("HookBC"); c[("Simulator", "_trigger_event_after_cancel")] = emit("HookAC")
    c[("Simulator", "_trigger_event_after_execution")] = emit("HookAE"); c[("Simulator", "_update_agents_for_execution")] = emit("Hold")
    c[("Market", "_add_order")] = emit("Add", "OrderLog"); c[("Market", "_cancel_order")] = emit("Cancel", "CancelLog")
    def execution(ex, st, recv, pos, kw):
        r = V(("list", ("ref", "ExecutionLog")), z3.Int(f"logs!{next(_n)}")); st.trace = st.trace + [("Round", recv.term, r.term)]; return [(st, r)]
    c[("Market", "_execution")] = execution
    c[("Agent", "submitted_order")] = emit("Sub"); c[("Agent", "canceled_order")] = emit("Can"); c[("Agent", "executed_order")] = emit("Exe")
    return c

def body_of(fn, var, which):
    loops = [n for n in ast.walk(fn) if isinstance(n, ast.For) and isinstance(n.target, ast.Name) and n.target.id == var]
    return loops[which].body

def run_case(which, cls):
    fn, _ = SRC.funcs["SequentialRunner._handle_orders"]
    body = body_of(fn, "order", which)
    ex = TraceExec(contracts()); ex.loop_specs = {}; ex.current = "h"; ex.escaped = []
    runner = sym_obj("SequentialRunner", "runner"); session = sym_obj("Session", "sess"); order = sym_obj(cls, "o")
    st = State(env={"self": runner, "session": session, "order": order, "agent": sym_obj("Agent", "loop_agent")})
    outs = ex.run(body, st)
    return ex, st, outs, runner, session, order

def show(trace, ind=6):
    for t in trace:
        if t[0] == "ForEach":
            print(" " * ind + f"ForEach l in {t[1]}:"); show(t[3], ind + 4)
        else: print(" " * ind + str(t[0]) + "(" + ", ".join(str(a) for a in t[1:]) + ")")

def check(which, label):
    ok = True
    for cls in ("Order", "Cancel"):
        ex, st0, outs, runner, session, order = run_case(which, cls)
        print(f"--- {label}, element is a {cls}: {len(outs)} paths")
        sim = st0.read(runner, "simulator")
        exe = st0.read(session, "with_order_execution").term   # NB: read in the *final* state below
        for s1, kind, val in outs:
            if kind == "raise": print("      raise", val, "under", [str(c)[:60] for c in s1.pc][-1:]); continue
            tr = s1.trace
            names = [t[0] for t in tr]
            if cls == "Order": exp_head = ["HookBO", "Add", "Sub", "HookAO"]
            else: exp_head = ["HookBC", "Cancel", "Can", "HookAC"]
            head_ok = names[:4] == exp_head
            # the callback goes to id2agent[order.agent_id] and carries the log returned by the market call
            log = tr[1][-1]; cb = tr[2]
            owner_field = "agent_id" if cls == "Order" else None
            if cls == "Order": agent_id = s1.read(order, "agent_id").term
            else: agent_id = s1.read(s1.read(order, "order"), "agent_id").term
            id2 = s1.read(sim, "id2agent"); kd, kv = ex.dict_arrays(s1, id2.ty)
            expected_agent = z3.Select(z3.Select(s1.heap[kv], id2.term), agent_id)
            s = z3.Solver(); s.add(*s1.pc); s.add(z3.Not(z3.And(cb[1] == expected_agent, cb[2] == log)))
            party_ok = s.check() == z3.unsat
            tail = tr[4:]
            runs_round = len(tail) > 0
            if runs_round:
                tail_ok = [t[0] for t in tail] == ["Round", "Hold", "ForEach"] and tail[1][2] == tail[0][2] and tail[2][1] == tail[0][2] \
                          and [t[0] for t in tail[2][3]] == ["Exe", "Exe", "HookAE"]
            else: tail_ok = True
            # gate: a round runs iff session.with_order_execution holds *after* the hooks (flag read at that point)
            gate = s1.read(session, "with_order_execution").term
            s = z3.Solver(); s.add(*s1.pc); s.add(gate != z3.BoolVal(runs_round)); gate_ok = s.check() == z3.unsat
            print(f"      path: head {'ok' if head_ok else 'BAD'}, callback party/log {'ok' if party_ok else 'BAD'}, round part {'ok' if tail_ok else 'BAD'}, gate {'ok' if gate_ok else 'BAD'}  (round={runs_round})")
            ok &= head_ok and party_ok and tail_ok and gate_ok
            if which == 0 and cls == "Order" and runs_round: show(tr)
    return ok

print("ALL OK" if (check(0, "normal path") & check(1, "HFT copy")) else "SOMETHING BAD")
