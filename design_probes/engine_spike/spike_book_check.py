import z3, spike_book as sb
from spike import *
# canary: a false goal must not be provable from the same hypotheses
orig = sb.discharge
def with_canary(title, obl, goals, assumptions=()):
    goals = list(goals) + [("CANARY false", goals[-1][1], z3.BoolVal(False))]
    return orig(title + " +canary", obl, goals, assumptions)
sb.discharge = with_canary
for c in (sb.case_remove, sb.case_change_volume):
    (ok, failed), n = c()
    print("   not discharged:", sorted(set((f[0], f[1]) for f in failed)))
