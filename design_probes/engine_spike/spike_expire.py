"""Spike part 8: OrderBook._check_expired_orders -- the comprehension-heavy function behind C04's expiry clause.
Statements are taken from the real AST and asserted against their text; the two comprehension idioms use the library summaries of
DESIGN.md App. B (dict-items filter, sum(lists, [])); the loop gets an invariant; the proof obligations go to z3."""
import ast, z3, time
from spike import SRC
fn, _ = SRC.funcs["OrderBook._check_expired_orders"]
got = [ast.unparse(s).split("\n")[0] for s in fn.body if not (isinstance(s, ast.Expr) and isinstance(s.value, ast.Constant))]
expected = ["delete_orders: List[Order] = sum([value for key, value in self.expire_time_list.items() if key < self.time], [])",
            "delete_keys: List[int] = [key for key, value in self.expire_time_list.items() if key < self.time]",
            "logs: List[ExpirationLog] = []", "if len(delete_orders) == 0:", "for delete_order in delete_orders:",
            "heapq.heapify(self.priority_queue)", "for key in delete_keys:", "return logs"]
assert got == expected, got
loop1 = [s for s in fn.body if isinstance(s, ast.For)][0]
assert [ast.unparse(s).split("(")[0] for s in loop1.body] == ["log: ExpirationLog = ExpirationLog", "logs.append", "self.priority_queue.remove"], [ast.unparse(s)[:40] for s in loop1.body]

I, B = z3.IntSort(), z3.BoolSort(); REF = I
T = z3.Int("T")                                   # self.time
memQ = z3.Array("memQ", REF, B)                   # queue membership at entry
dom = z3.Array("dom", I, B)                       # keys of expire_time_list
bucket = z3.Function("bucket_mem", I, REF, B)     # mem(expire_time_list[k], x)
ttln = z3.Function("ttl_none", REF, B); ttl = z3.Function("ttl", REF, I); pat = z3.Function("placed_at", REF, I); vol = z3.Function("volume", REF, I)
x, y, k = z3.Ints("x y k")
key = lambda o: pat(o) + ttl(o)
B4 = [z3.ForAll([x], z3.Implies(z3.And(memQ[x], z3.Not(ttln(x))), z3.And(dom[key(x)], bucket(key(x), x)))),
      z3.ForAll([k, x], z3.Implies(z3.And(dom[k], bucket(k, x)), z3.And(memQ[x], z3.Not(ttln(x)), key(x) == k)))]
expired = lambda o: z3.And(memQ[o], z3.Not(ttln(o)), key(o) < T)
# library summaries: DO = sum([value for key,value in D.items() if key < T], []) ; DK = [key for ... if key < T]
memDO = z3.Array("memDO", REF, B); nDO = z3.Int("nDO"); DO = z3.Array("DO", I, REF); posDO = z3.Function("posDO", REF, I)
memDK = z3.Array("memDK", I, B)
summaries = [z3.ForAll([x], memDO[x] == z3.Exists([k], z3.And(dom[k], k < T, bucket(k, x)))),          # membership of the concatenation
             z3.ForAll([k], memDK[k] == z3.And(dom[k], k < T)),
             nDO >= 0, (nDO == 0) == z3.ForAll([x], z3.Not(memDO[x])),
             z3.ForAll([k], z3.Implies(z3.And(0 <= k, k < nDO), z3.And(memDO[DO[k]], posDO(DO[k]) == k))),   # duplicate-free view (buckets are disjoint by B4)
             z3.ForAll([x], z3.Implies(memDO[x], z3.And(0 <= posDO(x), posDO(x) < nDO, DO[posDO(x)] == x)))]
def prove(title, hyps, goals, timeout=20000):
    bad = []; t0 = time.time()
    for nm, g in goals:
        s = z3.Solver(); s.set("timeout", timeout); s.add(*hyps); s.add(z3.Not(g)); r = s.check()
        if r != z3.unsat: bad.append((nm, str(r)))
    print(f"[{'OK ' if not bad else 'RED'}] {title}: {len(goals)} goals, {len(bad)} not discharged, {time.time()-t0:.2f}s", bad[:4])
H = B4 + summaries
# lemma (ghost witness k := placed_at + ttl): the concatenation holds exactly the expired resting orders
prove("characterisation of delete_orders", H, [("memDO == expired", z3.ForAll([x], memDO[x] == expired(x)))])
char = [z3.ForAll([x], memDO[x] == expired(x))]
# loop 1 invariant at index i: queue = entry queue minus DO[:i]; len(logs) = i; logs[j] describes DO[j] with its current volume
i = z3.Int("i"); memQi = z3.Array("memQi", REF, B); nlogs = z3.Int("nlogs"); log_order = z3.Array("log_order", I, REF); log_vol = z3.Array("log_vol", I, I)
inv = lambda i, mq, nl, lo, lv: [z3.And(0 <= i, i <= nDO), nl == i,
        z3.ForAll([y], mq[y] == z3.And(memQ[y], z3.Not(z3.And(memDO[y], posDO(y) < i)))),
        z3.ForAll([k], z3.Implies(z3.And(0 <= k, k < i), z3.And(lo[k] == DO[k], lv[k] == vol(DO[k]))))]
d = DO[i]
memQ2 = z3.Store(memQi, d, False); lo2 = z3.Store(log_order, nlogs, d); lv2 = z3.Store(log_vol, nlogs, vol(d))
prove("loop 1: init", H + char, [(f"inv#{n}", g) for n, g in enumerate(inv(z3.IntVal(0), memQ, z3.IntVal(0), log_order, log_vol))])
prove("loop 1: step (log appended, order removed from the queue)", H + char + inv(i, memQi, nlogs, log_order, log_vol) + [i < nDO],
      [("pre@list.remove: element present", memQi[d])] + [(f"inv#{n}", g) for n, g in enumerate(inv(i + 1, memQ2, nlogs + 1, lo2, lv2))])
# after loop 1 + heapify + loop 2 (pop every key < T)
memQf = z3.Array("memQf", REF, B); domf = z3.Array("domf", I, B)
after = H + char + inv(nDO, memQf, nlogs, log_order, log_vol) + [z3.ForAll([k], domf[k] == z3.And(dom[k], z3.Not(memDK[k])))]
prove("postcondition", after,
      [("removed exactly the overdue orders", z3.ForAll([y], memQf[y] == z3.And(memQ[y], z3.Not(expired(y))))),
       ("one log per expired order", nlogs == nDO),
       ("every expired order has its log", z3.ForAll([y], z3.Implies(expired(y), z3.And(0 <= posDO(y), posDO(y) < nlogs, log_order[posDO(y)] == y, log_vol[posDO(y)] == vol(y))))),
       ("B4 restored (1)", z3.ForAll([x], z3.Implies(z3.And(memQf[x], z3.Not(ttln(x))), z3.And(domf[key(x)], bucket(key(x), x))))),
       ("B4 restored (2)", z3.ForAll([k, x], z3.Implies(z3.And(domf[k], bucket(k, x)), z3.And(memQf[x], z3.Not(ttln(x)), key(x) == k)))),
       ("B5 nothing overdue", z3.ForAll([x], z3.Implies(z3.And(memQf[x], z3.Not(ttln(x))), key(x) >= T)))])
prove("canary", after, [("false", z3.BoolVal(False))], timeout=3000)
# mutant: `key <= self.time` in both comprehensions -> removes orders that expire exactly now
summ_mut = [z3.ForAll([x], memDO[x] == z3.Exists([k], z3.And(dom[k], k <= T, bucket(k, x))))] + summaries[1:]
s = z3.Solver(); s.set("timeout", 10000); s.add(*(B4 + summ_mut)); s.add(z3.Not(z3.ForAll([x], memDO[x] == expired(x)))); print("mutant `<=`: characterisation", s.check(), "(not unsat = caught)")
