import json, random, copy, sys, warnings
warnings.simplefilter('ignore')
sys.path.insert(0, '/repo')
from pams.runners import SequentialRunner
from pams.logs import Logger
from pams.session import Session
class Rec(Logger):
    def __init__(self):
        super().__init__(); self.orders=[]
    def process_order_log(self, log):
        self.orders.append((log.time, log.market_id, log.order_id, log.is_buy, log.price, log.volume, log.ttl))
ff = json.load(open('/repo/samples/fat_finger/config.json'))
cfg = copy.deepcopy(ff)
cfg['simulation']['markets'] = ['Market0', 'Market']
cfg['Market0'] = dict(cfg['Market'])
cfg['FCNAgents']['markets'] = ['Market0', 'Market']
cfg['FCNAgents']['numAgents'] = 10
cfg['simulation']['sessions'][0]['iterationSteps']=5
cfg['simulation']['sessions'][1]['iterationSteps']=10
cfg['OrderMistakeShock']['triggerTime']=3
lg=Rec()
r=SequentialRunner(settings=cfg, prng=random.Random(3), logger=lg); r.main()
print('target market id', r.simulator.name2market['Market'].market_id)
print([o for o in lg.orders if o[5]==10000])
s = Session(session_id=0, prng=random.Random(1), session_start_time=0, simulator=None, name='s')
s.setup({"iterationSteps":1,"withOrderPlacement":True,"withOrderExecution":True,"withPrint":False,"hifreqSubmitRate":0.25})
print('hifreqSubmitRate=0.25 ->', s.high_frequency_submission_rate, s.max_high_frequency_orders)
