import json, random, copy, sys
sys.path.insert(0, '/repo')
from pams.runners import SequentialRunner
from pams.logs import Logger

class Rec(Logger):
    def __init__(self):
        super().__init__(); self.ex=[]; self.orders=0
    def process_execution_log(self, log):
        self.ex.append((log.time, log.market_id, log.buy_order_id, log.sell_order_id, log.price, log.volume))
    def process_order_log(self, log):
        self.orders += 1

cfg = json.load(open('/repo/samples/trading_halt/config.json'))
cfg['TradingHaltRule']['haltingTimeLength'] = 10
cfg['simulation']['sessions'][0]['iterationSteps'] = 50
cfg['simulation']['sessions'][1]['iterationSteps'] = 50
cfg['FCNAgents']['numAgents'] = 20
lg = Rec()
r = SequentialRunner(settings=cfg, prng=random.Random(1), logger=lg)
r.main()
print('n exec records', len(lg.ex), 'orders', lg.orders)
print('exec in session0 (t<50):', [e for e in lg.ex if e[0] < 50][:6])
from collections import Counter
c = Counter(lg.ex)
print('duplicates:', sum(1 for k,v in c.items() if v>1), 'of', len(c))
