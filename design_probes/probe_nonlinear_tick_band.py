import z3, time
# tick rounding: reals, tick>0, p>0
p, tau, q = z3.Reals('p tau q')
k = z3.Int('k')
def prove(name, hyp, goal, to=10000):
    s = z3.Solver(); s.set('timeout', to)
    s.add(hyp); s.add(z3.Not(goal))
    t=time.time(); r = s.check(); print(name, 'proved' if r==z3.unsat else r, round(time.time()-t,3))
    if r==z3.sat: print(s.model())
# floor axioms: k = floor(q): k <= q < k+1 ; q = p/tau
hyp = z3.And(tau>0, p>0, q*tau==p, z3.ToReal(k) <= q, q < z3.ToReal(k)+1)
newp = z3.ToReal(k)*tau
prove('buy: newp<=p', hyp, newp <= p)
prove('buy: p-newp<tau', hyp, p - newp < tau)
# python float mod: r = p - floor(p/tau)*tau ; on-grid iff r==0
prove('ongrid => unchanged', z3.And(hyp, p - z3.ToReal(k)*tau == 0), newp == p)
# ceil
c = z3.Int('c')
hyp2 = z3.And(tau>0, p>0, q*tau==p, z3.ToReal(c)-1 < q, q <= z3.ToReal(c))
newp2 = z3.ToReal(c)*tau
prove('sell: newp>=p', hyp2, newp2 >= p)
prove('sell: newp-p<tau', hyp2, newp2 - p < tau)
# with division directly
hyp3 = z3.And(tau>0, p>0, z3.ToReal(k) <= p/tau, p/tau < z3.ToReal(k)+1)
prove('div buy: newp<=p', hyp3, newp <= p)
prove('div buy: p-newp<tau', hyp3, p-newp < tau)
# price limit band
p0, r, op = z3.Reals('p0 r op')
absf = lambda x: z3.If(x>=0, x, -x)
pc = op - p0; th = p0*r
mx = p0*(1+r); mn = p0*(1-r)
zmax = lambda a,b: z3.If(a>=b,a,b); zmin = lambda a,b: z3.If(a<=b,a,b)
res = z3.If(absf(pc) >= absf(th), zmin(zmax(op, mn), mx), op)
prove('band', z3.And(p0>0, r>=0), z3.And(mn <= res, res <= mx))
prove('inside unchanged', z3.And(p0>0, r>=0, mn<=op, op<=mx), res==op)
