import json, random, copy, sys, warnings
warnings.simplefilter('ignore')
sys.path.insert(0, '/repo')
from pams.runners import SequentialRunner
from pams.logs import Logger
class Rec(Logger):
    def __init__(self):
        super().__init__(); self.orders=[]
    def process_order_log(self, log):
        self.orders.append((log.time, log.market_id, log.order_id, log.is_buy, log.price, log.volume, log.ttl))

base = json.load(open('/repo/samples/price_limit/config.json'))
# two markets, rule targets only Market
cfg = copy.deepcopy(base)
cfg['simulation']['markets'] = ['Market', 'Market2']
cfg['Market2'] = dict(cfg['Market'])
cfg['FCNAgents']['markets'] = ['Market', 'Market2']
cfg['FCNAgents']['numAgents'] = 10
for s in cfg['simulation']['sessions']: s['iterationSteps'] = 10
try:
    SequentialRunner(settings=cfg, prng=random.Random(1), logger=Rec()).main()
    print('price limit 2 markets: ok')
except BaseException as e:
    print('price limit 2 markets: raised', type(e).__name__, e)

# range length 2
cfg = copy.deepcopy(base)
del cfg['FCNAgents']['numAgents']; cfg['FCNAgents']['from']=0; cfg['FCNAgents']['to']=1
for s in cfg['simulation']['sessions']: s['iterationSteps'] = 3
try:
    r=SequentialRunner(settings=cfg, prng=random.Random(1)); r.main()
    print('range 0..1 ok', [a.name for a in r.simulator.agents])
except BaseException as e:
    print('range 0..1: raised', type(e).__name__, e)
for lo,hi in [(0,0),(3,3),(0,2),(2,4)]:
    cfg = copy.deepcopy(base)
    del cfg['FCNAgents']['numAgents']; cfg['FCNAgents']['from']=lo; cfg['FCNAgents']['to']=hi
    for s in cfg['simulation']['sessions']: s['iterationSteps'] = 3
    try:
        r=SequentialRunner(settings=cfg, prng=random.Random(1)); r._setup()
        print('range',lo,hi,'ok', [(a.agent_id,a.name) for a in r.simulator.agents])
    except BaseException as e:
        print('range',lo,hi,': raised', type(e).__name__, e)

# fat finger multi-market
ff = json.load(open('/repo/samples/fat_finger/config.json'))
print(json.dumps(ff['simulation'], indent=0)[:600]); print(ff.get('OrderMistakeShock'))
