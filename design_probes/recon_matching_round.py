import sys, random, warnings, itertools, copy
warnings.simplefilter('ignore')
sys.path.insert(0, '/repo')
from pams.market import Market
from pams.order import Order, Cancel, LIMIT_ORDER, MARKET_ORDER
from pams.logs import Logger

class Sim: pass
def mk():
    m = Market(market_id=0, prng=random.Random(0), simulator=Sim(), name='m', logger=Logger())
    m.setup({'tickSize': 1.0, 'marketPrice': 10.0})
    m._update_time(next_fundamental_price=10.0)
    return m

def key(o):
    return (0 if o.price is None else 1, 0 if o.price is None else (-o.price if o.is_buy else o.price), o.placed_at, o.order_id)

stats = dict(rounds=0, fills=0, raised=0, bothmkt=0)
def check_round(m, rng):
    buys = sorted(m.buy_order_book.priority_queue, key=key); sells = sorted(m.sell_order_book.priority_queue, key=key)
    pre = {id(o): o.volume for o in buys + sells}
    both_mkt = bool(buys and sells and buys[0].price is None and sells[0].price is None)
    try:
        logs = m._execution()
    except BaseException as e:
        stats['raised'] += 1
        print('RAISED', type(e).__name__, [(o.price, o.volume, o.placed_at, o.order_id) for o in buys], [(o.price, o.volume, o.placed_at, o.order_id) for o in sells]); return False
    stats['rounds'] += 1; stats['fills'] += len(logs); stats['bothmkt'] += both_mkt
    byid = {o.order_id: o for o in buys + sells}
    if logs:
        ps = {l.price for l in logs}
        assert len(ps) == 1, ('multi price', ps)
        p = logs[0].price
        for l in logs:
            b, s = byid[l.buy_order_id], byid[l.sell_order_id]
            assert b.is_buy and not s.is_buy
            assert b.price is None or p <= b.price, ('buy bound', p, b.price)
            assert s.price is None or p >= s.price, ('sell bound', p, s.price)
        # price rule: last matched pair (not mm)
        lb, ls = byid[logs[-1].buy_order_id], byid[logs[-1].sell_order_id]
        if lb.price is None: exp = ls.price
        elif ls.price is None: exp = lb.price
        else: exp = lb.price if (lb.placed_at, lb.order_id) < (ls.placed_at, ls.order_id) else ls.price
        assert exp is not None and p == exp, ('price rule', p, exp)
    # priority: filled orders form a prefix; only the last may be partial
    for side in (buys, sells):
        filled = [pre[id(o)] - o.volume for o in side]
        seen_unfilled = False
        for o, f in zip(side, filled):
            if f > 0: assert not seen_unfilled, ('priority', [(x.price, pre[id(x)], x.placed_at, x.order_id, pre[id(x)]-x.volume) for x in side])
            if o.volume > 0: seen_unfilled = True
    # post
    bb, bs = m.buy_order_book.get_best_order(), m.sell_order_book.get_best_order()
    if bb and bs and (bb.price is not None or bs.price is not None):
        assert bb.price is not None and bs.price is not None and bb.price < bs.price, ('post', bb, bs)
    return True

def run(seed, continuous):
    rng = random.Random(seed)
    m = mk(); m._is_running = True
    live = []
    for step in range(rng.randint(1, 12)):
        r = rng.random()
        if r < 0.75:
            mkt = rng.random() < 0.25
            o = Order(agent_id=0, market_id=0, is_buy=rng.random() < 0.5, kind=MARKET_ORDER if mkt else LIMIT_ORDER,
                      volume=rng.randint(1, 3), price=None if mkt else float(rng.randint(8, 12)), ttl=rng.choice([None, 1, 2]))
            m._add_order(o); live.append(o)
        elif r < 0.85 and live:
            o = rng.choice(live); 
            if not o.is_canceled: m._cancel_order(Cancel(order=o))
        else:
            m._update_time(next_fundamental_price=10.0)
        if continuous and r < 0.85:
            if not check_round(m, rng): return
    if not check_round(m, rng): return
for seed in range(30000):
    try:
        run(seed, continuous=seed % 2 == 0)
    except AssertionError as e:
        print('seed', seed, 'VIOL', e); break
print(stats)
