import sys, random, warnings
warnings.simplefilter('ignore')
sys.path.insert(0, '/repo')
from pams.simulator import Simulator
from pams.market import Market
from pams.events import EventABC, EventHook
from pams.session import Session
sim = Simulator(prng=random.Random(1))
m = Market(market_id=0, prng=random.Random(0), simulator=sim, name='m'); m.setup({'tickSize':1.0,'marketPrice':10.0}); sim._add_market(m)
m._update_time(10.0)
calls = []
class E(EventABC):
    def hook_registration(self): return [EventHook(event=self, hook_type='market', is_before=True, time=[0, 0])]
    def hooked_before_step_for_market(self, simulator, market): calls.append(market.get_time())
s = Session(session_id=0, prng=random.Random(1), session_start_time=0, simulator=sim, name='s')
e = E(event_id=0, prng=random.Random(1), session=s, simulator=sim, name='e')
for h in e.hook_registration(): sim._add_event(h)
sim._trigger_event_before_step_for_market(m)
print('hook with time=[0,0] invoked', len(calls), 'times at t=0')
