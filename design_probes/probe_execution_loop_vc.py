# Hand-encoded VC prototype for Market._execution main loop (feasibility of quantified invariants in z3)
import z3, time, itertools
Ref = z3.IntSort()
I = z3.IntSort(); B = z3.BoolSort(); R = z3.RealSort()
A = lambda d, r: z3.ArraySort(d, r)
# immutable fields
price = z3.Function('price', Ref, R); isLim = z3.Function('isLim', Ref, B)
pat = z3.Function('pat', Ref, I); oid = z3.Function('oid', Ref, I); vol = z3.Function('vol', Ref, I)

def tie(a, b):  # earlier placed_at, then lower id
    return z3.Or(pat(a) < pat(b), z3.And(pat(a) == pat(b), oid(a) < oid(b)))
def lt(a, b, is_buy):
    better = (price(a) > price(b)) if is_buy else (price(a) < price(b))
    return z3.If(z3.And(z3.Not(isLim(a)), z3.Not(isLim(b))), tie(a, b),
           z3.If(z3.Not(isLim(a)), True,
           z3.If(z3.Not(isLim(b)), False,
           z3.If(price(a) != price(b), better, tie(a, b)))))

class Side:
    def __init__(s, tag, is_buy, suffix):
        s.is_buy = is_buy
        n = lambda x: f'{x}{tag}{suffix}'
        s.mem = z3.Array(n('mem'), Ref, B)      # set of refs still in queue
        s.nQ = z3.Int(n('nQ'))
        s.P = z3.Array(n('P'), I, Ref); s.nP = z3.Int(n('nP'))
        s.idx = z3.Array(n('idx'), Ref, I)
        s.fill = z3.Array(n('fill'), Ref, I)
        s.cur = z3.Int(n('cur')); s.tmp = z3.Int(n('tmp'))
    def popped(s, x):
        return z3.And(0 <= s.idx[x], s.idx[x] < s.nP, s.P[s.idx[x]] == x)
    def lt(s, a, b): return lt(a, b, s.is_buy)

mem0 = {'B': z3.Array('origB', Ref, B), 'S': z3.Array('origS', Ref, B)}

def side_inv(s, m0, may_be_empty):
    x, y, k, k2 = z3.Ints('x y k k2')
    c = []
    c.append(s.nQ >= 0)
    c.append(z3.ForAll([x], z3.Implies(s.mem[x], z3.And(vol(x) > 0))))
    c.append(z3.ForAll([x], z3.Implies(m0[x], vol(x) > 0)))
    # distinct ids => identity (orders unique by id within a book)
    c.append(z3.ForAll([x, y], z3.Implies(z3.And(m0[x], m0[y], x != y), oid(x) != oid(y))))
    c.append(s.nP >= (0 if may_be_empty else 1))
    c.append(z3.ForAll([k], z3.Implies(z3.And(0 <= k, k < s.nP), z3.And(s.idx[s.P[k]] == k, z3.Not(s.mem[s.P[k]]), m0[s.P[k]]))))
    c.append(z3.ForAll([x], m0[x] == z3.Or(s.mem[x], s.popped(x))))
    c.append(z3.ForAll([x], z3.Implies(s.popped(x), z3.Not(s.mem[x]))))
    # sortedness
    c.append(z3.ForAll([k, k2], z3.Implies(z3.And(0 <= k, k < k2, k2 < s.nP), s.lt(s.P[k], s.P[k2]))))
    c.append(z3.ForAll([k, x], z3.Implies(z3.And(0 <= k, k < s.nP, s.mem[x]), s.lt(s.P[k], x))))
    # fills
    c.append(z3.ForAll([x], z3.Implies(z3.Not(s.popped(x)), s.fill[x] == 0)))
    c.append(z3.ForAll([x], z3.And(0 <= s.fill[x])))
    c.append(z3.ForAll([k], z3.Implies(z3.And(0 <= k, k < s.nP - 1), s.fill[s.P[k]] == vol(s.P[k]))))
    c.append(z3.Implies(s.nP >= 1, z3.And(s.cur == s.P[s.nP - 1], s.fill[s.cur] == vol(s.cur) - s.tmp, 0 <= s.tmp, s.tmp <= vol(s.cur))))
    c.append(z3.Implies(s.nP == 0, s.tmp == 0))
    return c

class St:
    def __init__(st, suffix):
        st.b = Side('B', True, suffix); st.s = Side('S', False, suffix)
        st.pset = z3.Bool('pset' + suffix); st.pval = z3.Real('pval' + suffix)

def inv(st):
    x = z3.Int('x')
    c = side_inv(st.b, mem0['B'], False) + side_inv(st.s, mem0['S'], True)
    c.append(z3.Not(z3.And(st.b.tmp != 0, st.s.tmp != 0)))
    # C01 bounds over filled orders
    c.append(z3.ForAll([x], z3.Implies(z3.And(st.b.fill[x] > 0, isLim(x)), z3.And(st.pset, st.pval <= price(x)))))
    c.append(z3.ForAll([x], z3.Implies(z3.And(st.s.fill[x] > 0, isLim(x)), z3.And(st.pset, st.pval >= price(x)))))
    # a filled sell implies some filled buy etc. not needed
    return c

def pop(s_old, s_new, extra):
    """heappop contract on side: returns constraints relating old/new (queue, popped list, idx)."""
    x = z3.Int('x')
    m = s_new.cur
    c = [s_old.nQ > 0, s_old.mem[m], s_new.mem == z3.Store(s_old.mem, m, False), s_new.nQ == s_old.nQ - 1,
         z3.ForAll([x], z3.Implies(z3.And(s_old.mem[x], x != m), s_old.lt(m, x))),
         s_new.P == z3.Store(s_old.P, s_old.nP, m), s_new.nP == s_old.nP + 1,
         s_new.idx == z3.Store(s_old.idx, m, s_old.nP), s_new.tmp == vol(m), s_new.fill == s_old.fill]
    return c

def same_side(a, b):
    return [a.mem == b.mem, a.nQ == b.nQ, a.P == b.P, a.nP == b.nP, a.idx == b.idx, a.fill == b.fill, a.cur == b.cur, a.tmp == b.tmp]

def check(name, hyps, goals, timeout=20000):
    res = []
    for i, g in enumerate(goals):
        s = z3.Solver(); s.set('timeout', timeout)
        s.add(hyps); s.add(z3.Not(g))
        t = time.time(); r = s.check(); dt = time.time() - t
        res.append((i, str(r), round(dt, 2)))
    bad = [x for x in res if x[1] != 'unsat']
    print(name, 'goals', len(goals), 'bad', bad, 'max_t', max(x[2] for x in res))

# ---- one iteration: head state st0; optionally pop buy -> st1; optionally pop sell -> st2; then match -> st3
st0, st1, st2, st3 = St('0'), St('1'), St('2'), St('3')
H = inv(st0)
# total order facts needed? lt is defined by formula so z3 knows.
for pop_b, pop_s in itertools.product([False, True], repeat=2):
    hyps = list(H)
    # buy pop branch
    if pop_b:
        hyps += [st0.b.tmp == 0] + pop(st0.b, st1.b, None)
    else:
        hyps += [st0.b.tmp != 0] + same_side(st0.b, st1.b)
    hyps += same_side(st0.s, st1.s)
    if pop_s:
        hyps += [st1.s.tmp == 0] + pop(st1.s, st2.s, None)
    else:
        hyps += [st1.s.tmp != 0] + same_side(st1.s, st2.s)
    hyps += same_side(st1.b, st2.b)
    b, s = st2.b.cur, st2.s.cur
    crossing_break = z3.And(isLim(b), isLim(s), price(b) < price(s))
    hyps.append(z3.Not(crossing_break))
    v = z3.Int('v')
    hyps.append(v == z3.If(st2.b.tmp <= st2.s.tmp, st2.b.tmp, st2.s.tmp))
    # match
    for (o, n) in [(st2.b, st3.b), (st2.s, st3.s)]:
        hyps += [n.mem == o.mem, n.nQ == o.nQ, n.P == o.P, n.nP == o.nP, n.idx == o.idx, n.cur == o.cur,
                 n.tmp == o.tmp - v, n.fill == z3.Store(o.fill, o.cur, o.fill[o.cur] + v)]
    both_mkt = z3.And(z3.Not(isLim(b)), z3.Not(isLim(s)))
    newp = z3.If(z3.Not(isLim(b)), price(s), z3.If(z3.Not(isLim(s)), price(b),
            z3.If(pat(b) == pat(s), z3.If(oid(b) < oid(s), price(b), price(s)),
                  z3.If(pat(b) < pat(s), price(b), price(s)))))
    hyps += [st3.pset == z3.If(both_mkt, st2.pset, True), st3.pval == z3.If(both_mkt, st2.pval, newp)]
    hyps += [st2.pset == st0.pset, st2.pval == st0.pval]
    # assertion obligations inside body: volume != 0, tmp >= 0 after, popped volume != 0, order ids differ when same time
    goals = [v != 0, st3.b.tmp >= 0, st3.s.tmp >= 0,
             z3.Implies(z3.And(isLim(b), isLim(s), pat(b) == pat(s)), True)]
    goals += inv(st3)
    check(f'iter pop_b={pop_b} pop_s={pop_s}', hyps, goals)




# ---------------- exit => postconditions (before fills are applied: final volume = vol - fill)
print("--- exit obligations")
def remainingB(st, x): return z3.And(mem0['B'][x], st.b.fill[x] < vol(x))
def remainingS(st, x): return z3.And(mem0['S'][x], st.s.fill[x] < vol(x))
def E6(st):
    x, y = z3.Ints('x y')
    return [z3.ForAll([x, y], z3.Implies(z3.And(mem0['B'][x], mem0['B'][y], lt(y, x, True), st.b.fill[x] > 0), st.b.fill[y] == vol(y))),
            z3.ForAll([x, y], z3.Implies(z3.And(mem0['S'][x], mem0['S'][y], lt(y, x, False), st.s.fill[x] > 0), st.s.fill[y] == vol(y)))]
def E7(st):
    # if bb, bs are best remaining orders on each side and one is limit => both limit and bid<ask
    bb, bs, x = z3.Ints('bb bs x')
    bestB = z3.And(remainingB(st, bb), z3.ForAll([x], z3.Implies(z3.And(remainingB(st, x), x != bb), lt(bb, x, True))))
    bestS = z3.And(remainingS(st, bs), z3.ForAll([x], z3.Implies(z3.And(remainingS(st, x), x != bs), lt(bs, x, False))))
    return [z3.Implies(z3.And(bestB, bestS, z3.Or(isLim(bb), isLim(bs))), z3.And(isLim(bb), isLim(bs), price(bb) < price(bs)))]
x = z3.Int('x')
# Exit A: at loop head, buy_tmp == 0 and buy queue empty
hypsA = list(H) + [st0.b.tmp == 0, st0.b.nQ == 0, z3.ForAll([x], z3.Not(st0.b.mem[x]))]
check('exit A (buys exhausted)', hypsA, E6(st0) + E7(st0))
# Exit B: buy popped or not -> st1 ; sell_tmp == 0 and sell queue empty
for pop_b in (False, True):
    hyps = list(H)
    if pop_b: hyps += [st0.b.tmp == 0] + pop(st0.b, st1.b, None)
    else: hyps += [st0.b.tmp != 0] + same_side(st0.b, st1.b)
    hyps += same_side(st0.s, st1.s)
    hyps += [st1.s.tmp == 0, st1.s.nQ == 0, z3.ForAll([x], z3.Not(st1.s.mem[x]))]
    check(f'exit B (sells exhausted) pop_b={pop_b}', hyps, E6(st1) + E7(st1))
# Exit C: non-crossing limit pair after pops
for pop_b, pop_s in itertools.product([False, True], repeat=2):
    if not pop_b and not pop_s: continue
    hyps = list(H)
    if pop_b: hyps += [st0.b.tmp == 0] + pop(st0.b, st1.b, None)
    else: hyps += [st0.b.tmp != 0] + same_side(st0.b, st1.b)
    hyps += same_side(st0.s, st1.s)
    if pop_s: hyps += [st1.s.tmp == 0] + pop(st1.s, st2.s, None)
    else: hyps += [st1.s.tmp != 0] + same_side(st1.s, st2.s)
    hyps += same_side(st1.b, st2.b)
    b, s = st2.b.cur, st2.s.cur
    hyps.append(z3.And(isLim(b), isLim(s), price(b) < price(s)))
    check(f'exit C (non-crossing) pop_b={pop_b} pop_s={pop_s}', hyps, E6(st2) + E7(st2))
