# recon for C07: which ambient-nondeterminism sources does the current tree touch, and where?
import ast, glob
hits = []
for f in sorted(glob.glob('/repo/pams/**/*.py', recursive=True)):
    tree = ast.parse(open(f).read())
    imports = {}
    for n in ast.walk(tree):
        if isinstance(n, ast.Import):
            for a in n.names: imports[a.asname or a.name] = a.name
        if isinstance(n, ast.ImportFrom):
            for a in n.names: imports[a.asname or a.name] = (n.module or '') + '.' + a.name
    for fn in [n for n in ast.walk(tree) if isinstance(n, ast.FunctionDef)]:
        for n in ast.walk(fn):
            if isinstance(n, ast.Call):
                f_ = n.func
                if isinstance(f_, ast.Attribute) and isinstance(f_.value, ast.Name):
                    mod = imports.get(f_.value.id)
                    if mod == 'random': hits.append((f, fn.name, n.lineno, 'random.' + f_.attr, ast.unparse(n)[:70]))
                    if mod == 'time': hits.append((f, fn.name, n.lineno, 'time.' + f_.attr, ''))
                    if mod == 'os': hits.append((f, fn.name, n.lineno, 'os.' + f_.attr, ''))
                if isinstance(f_, ast.Attribute) and isinstance(f_.value, ast.Attribute) and isinstance(f_.value.value, ast.Name) and imports.get(f_.value.value.id) == 'numpy' and f_.value.attr == 'random':
                    hits.append((f, fn.name, n.lineno, 'np.random.' + f_.attr, ast.unparse(n)[:70]))
                if isinstance(f_, ast.Name) and f_.id in ('set', 'frozenset', 'id', 'hash', 'globals', 'locals', 'open', 'input'):
                    hits.append((f, fn.name, n.lineno, f_.id + '()', ast.unparse(n)[:70]))
            if isinstance(n, (ast.Set, ast.SetComp)): hits.append((f, fn.name, n.lineno, 'set literal', ''))
for h in hits: print(h[0].replace('/repo/', ''), h[1], h[2], h[3], h[4])
