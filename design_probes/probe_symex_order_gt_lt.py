# mini AST->z3 symbolic executor prototype for Order._gt_lt (feasibility; not the framework)
import ast, z3, time, sys
src = open('/repo/pams/order.py').read()
mod = ast.parse(src)
cls = [n for n in mod.body if isinstance(n, ast.ClassDef) and n.name == 'Order'][0]
fn = [n for n in cls.body if isinstance(n, ast.FunctionDef) and n.name == '_gt_lt'][0]

class Opt:  # optional value
    def __init__(s, none, val): s.none, s.val = none, val
class Obj:
    def __init__(s, name):
        s.fields = {'kind': z3.Int(name+'_kind'),
                    'price': Opt(z3.Bool(name+'_price_none'), z3.Real(name+'_price')),
                    'placed_at': Opt(z3.Bool(name+'_pat_none'), z3.Int(name+'_pat')),
                    'order_id': Opt(z3.Bool(name+'_oid_none'), z3.Int(name+'_oid')),
                    'is_buy': z3.Bool(name+'_is_buy')}
MARKET, LIMIT = z3.IntVal(0), z3.IntVal(1)
class Raise(Exception): pass
results = []  # (pc, kind, value)

def ev(e, env, pc):
    """returns list of (pc, value)"""
    if isinstance(e, ast.Constant):
        v = e.value
        if v is True or v is False: return [(pc, z3.BoolVal(v))]
        if v is None: return [(pc, None)]
        raise NotImplementedError(v)
    if isinstance(e, ast.Name):
        if e.id == 'MARKET_ORDER': return [(pc, MARKET)]
        if e.id == 'LIMIT_ORDER': return [(pc, LIMIT)]
        return [(pc, env[e.id])]
    if isinstance(e, ast.Attribute):
        out = []
        for pc1, o in ev(e.value, env, pc):
            out.append((pc1, o.fields[e.attr]))
        return out
    if isinstance(e, ast.Compare) and len(e.ops) == 1:
        out = []
        for pc1, l in ev(e.left, env, pc):
            for pc2, r in ev(e.comparators[0], env, pc1):
                op = e.ops[0]
                if isinstance(op, (ast.Is, ast.IsNot)):
                    assert r is None
                    t = l.none if isinstance(l, Opt) else z3.BoolVal(False)
                    out.append((pc2, t if isinstance(op, ast.Is) else z3.Not(t)))
                else:
                    # comparing optionals: obligation not-None (TypeError) for ordering; == on optionals structural
                    def val(x): return x.val if isinstance(x, Opt) else x
                    if isinstance(op, (ast.Lt, ast.Gt)):
                        for x in (l, r):
                            if isinstance(x, Opt):
                                results.append((pc2 + [x.none], 'raise', 'TypeError'))
                                pc2 = pc2 + [z3.Not(x.none)]
                        out.append((pc2, val(l) < val(r) if isinstance(op, ast.Lt) else val(l) > val(r)))
                    elif isinstance(op, (ast.Eq, ast.NotEq)):
                        if isinstance(l, Opt) and isinstance(r, Opt):
                            eq = z3.Or(z3.And(l.none, r.none), z3.And(z3.Not(l.none), z3.Not(r.none), l.val == r.val))
                        else:
                            eq = val(l) == val(r)
                        out.append((pc2, eq if isinstance(op, ast.Eq) else z3.Not(eq)))
                    else: raise NotImplementedError(ast.dump(op))
        return out
    if isinstance(e, ast.BoolOp):
        # short-circuit
        def rec(vals, pc):
            if len(vals) == 1: return ev(vals[0], env, pc)
            out = []
            for pc1, v in ev(vals[0], env, pc):
                if isinstance(e.op, ast.And):
                    out.append((pc1 + [z3.Not(v)], z3.BoolVal(False)))
                    out += rec(vals[1:], pc1 + [v])
                else:
                    out.append((pc1 + [v], z3.BoolVal(True)))
                    out += rec(vals[1:], pc1 + [z3.Not(v)])
            return out
        return rec(e.values, pc)
    if isinstance(e, ast.IfExp):
        out = []
        for pc1, c in ev(e.test, env, pc):
            out += ev(e.body, env, pc1 + [c]); out += ev(e.orelse, env, pc1 + [z3.Not(c)])
        return out
    if isinstance(e, ast.Call):
        f = e.func
        if isinstance(f, ast.Name) and f.id == 'cast': return ev(e.args[1], env, pc)
        if isinstance(f, ast.Name) and f.id in env and isinstance(env[f.id], tuple):  # closure
            fdef, cenv = env[f.id]
            assert not e.args
            # evaluate kwargs
            states = [(pc, {})]
            for kw in e.keywords:
                ns = []
                for pc1, d in states:
                    for pc2, v in ev(kw.value, env, pc1): ns.append((pc2, {**d, kw.arg: v}))
                states = ns
            out = []
            for pc1, d in states:
                for pc2, kind, v in run(fdef.body, {**cenv, **d}, pc1):
                    if kind == 'return': out.append((pc2, v))
                    else: results.append((pc2, kind, v))
            return out
        raise NotImplementedError(ast.dump(e))
    raise NotImplementedError(ast.dump(e))

def feasible(pc):
    s = z3.Solver(); s.add(*pc); return s.check() != z3.unsat

def run(stmts, env, pc):
    """returns list of terminal outcomes (pc, 'return'|'raise', value); falls through => ('fall')"""
    if not stmts: return [(pc, 'fall', env)]
    st, rest = stmts[0], stmts[1:]
    if isinstance(st, ast.Expr):
        if isinstance(st.value, ast.Constant): return run(rest, env, pc)  # docstring/comment
        if isinstance(st.value, ast.Call) and isinstance(st.value.func, ast.Attribute) and st.value.func.attr == '_check_comparability':
            return run(rest, env, pc)   # precondition in this prototype
        raise NotImplementedError(ast.dump(st))
    if isinstance(st, ast.Assign):
        out = []
        for pc1, v in ev(st.value, env, pc):
            out += run(rest, {**env, st.targets[0].id: v}, pc1)
        return out
    if isinstance(st, ast.FunctionDef):
        return run(rest, {**env, st.name: (st, env)}, pc)
    if isinstance(st, ast.Return):
        return [(pc1, 'return', v) for pc1, v in ev(st.value, env, pc)]
    if isinstance(st, ast.Raise):
        exc = st.exc
        name = exc.func.id if isinstance(exc, ast.Call) else exc.id
        return [(pc, 'raise', name)]
    if isinstance(st, ast.If):
        out = []
        for pc1, c in ev(st.test, env, pc):
            for branch, cond in ((st.body, c), (st.orelse, z3.Not(c))):
                pcb = pc1 + [cond]
                if not feasible(pcb): continue
                for o in run(branch, env, pcb):
                    if o[1] == 'fall': out += run(rest, o[2], o[0])
                    else: out.append(o)
        return out
    raise NotImplementedError(ast.dump(st))

def gt_lt(a, b, gt):
    global results
    results = []
    outs = run(fn.body, {'self': a, 'other': b, 'gt': z3.BoolVal(gt)}, [])
    outs = [(pc, k, v) for pc, k, v in outs] + results
    return outs

t0 = time.time()
a, b, c = Obj('a'), Obj('b'), Obj('c')
def summarize(x, y, gt):
    outs = gt_lt(x, y, gt)
    ret = z3.BoolVal(False); raises = z3.BoolVal(False)
    for pc, k, v in outs:
        cond = z3.And(*pc) if pc else z3.BoolVal(True)
        if k == 'return': ret = z3.Or(ret, z3.And(cond, v))
        else: raises = z3.Or(raises, cond)
    return ret, raises, len(outs)
def wf(o, buy):
    f = o.fields
    return z3.And(f['is_buy'] == buy, z3.Or(f['kind'] == 0, f['kind'] == 1),
                  (f['kind'] == 0) == f['price'].none, z3.Not(f['placed_at'].none), z3.Not(f['order_id'].none))
def same(x, y):
    fx, fy = x.fields, y.fields
    return z3.And(fx['kind'] == fy['kind'], fx['price'].none == fy['price'].none, fx['price'].val == fy['price'].val,
                  fx['placed_at'].val == fy['placed_at'].val, fx['order_id'].val == fy['order_id'].val)
def prove(name, hyp, goal):
    s = z3.Solver(); s.add(hyp, z3.Not(goal)); r = s.check()
    print(f'{name:40s}', 'PROVED' if r == z3.unsat else r, (s.model() if r == z3.sat else ''))
for buy in (True, False):
    BUY = z3.BoolVal(buy)
    lt_ab, r_ab, n = summarize(a, b, False); lt_ba, r_ba, _ = summarize(b, a, False)
    lt_bc, r_bc, _ = summarize(b, c, False); lt_ac, r_ac, _ = summarize(a, c, False)
    gt_ab, rg_ab, _ = summarize(a, b, True)
    uniq = lambda x, y: z3.Implies(x.fields['order_id'].val == y.fields['order_id'].val, same(x, y))
    H = z3.And(wf(a, BUY), wf(b, BUY), wf(c, BUY), uniq(a, b), uniq(b, c), uniq(a, c))
    print('side buy' if buy else 'side sell', 'paths', n)
    prove('no raise', H, z3.Not(z3.Or(r_ab, rg_ab)))
    prove('irreflexive', H, z3.Implies(same(a, b), z3.Not(lt_ab)))
    prove('asymmetric', H, z3.Not(z3.And(lt_ab, lt_ba)))
    prove('transitive', H, z3.Implies(z3.And(lt_ab, lt_bc), lt_ac))
    prove('total', H, z3.Or(lt_ab, lt_ba, same(a, b)))
    prove('gt is converse of lt', H, gt_ab == lt_ba)
    # agreement with the ranking in the property statement
    fa, fb = a.fields, b.fields
    tie = z3.Or(fa['placed_at'].val < fb['placed_at'].val, z3.And(fa['placed_at'].val == fb['placed_at'].val, fa['order_id'].val < fb['order_id'].val))
    better = (fa['price'].val > fb['price'].val) if buy else (fa['price'].val < fb['price'].val)
    rank = z3.If(z3.And(fa['kind'] == 0, fb['kind'] == 0), tie, z3.If(fa['kind'] == 0, True, z3.If(fb['kind'] == 0, False,
            z3.If(fa['price'].val != fb['price'].val, better, tie))))
    prove('agrees with price-time rank', H, lt_ab == rank)
print('time', round(time.time() - t0, 2))
