#!/bin/sh
# runs every registered check (quick tier by default) and prints one line per property
cd "$(dirname "$0")/.." || exit 3
TIER=${1:-quick}
for p in $(python3-vt -c "import sys; sys.path.insert(0,'.'); from specs import props; print(' '.join(sorted(props.PROPS)))"); do
  s=$(date +%s); out=$(./check $p --tier $TIER 2>&1); rc=$?; e=$(date +%s)
  echo "$p rc=$rc $((e-s))s $(echo "$out" | tail -1)"
  echo "$out" | grep -E "VIOLATION|ENGINE-ERROR|KNOWN-FINDING" 
done
