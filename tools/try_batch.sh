#!/bin/sh
# usage: tools/try_batch.sh <seeded-id>:<PROP>[,<PROP>...] ...   -> /verif/seeded/<id>/result.json
cd /verif || exit 3
for spec in "$@"; do
  id=${spec%%:*}; props=$(echo ${spec#*:} | tr ',' ' ')
  python3 tools/try_mutant.py $id seeded/$id $props > seeded/$id/result.json 2> seeded/$id/result.err
  python3 - <<PY
import json
try:
    r=json.load(open('seeded/$id/result.json'))
    print(r['id'], 'clean',r['demo_clean_exit'],'mut',r['demo_mutant_exit'],'applies',r['patch_applies'], r['tests'])
    for p,c in r['checks'].items(): print('  ',p,'exit',c['exit'],c['wall_s'],'s', [ (v['obligation'][:120], v['witness_found']) for v in c['violations']][:3], c['lines'][:2] if not c['violations'] else '')
except Exception as e: print('$id', 'ERR', e)
PY
done
