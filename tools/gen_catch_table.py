"""regenerate DESIGN.md section 11.7 (which checks catch which seeded changes; behaviour-preserving changes) from seeded/*/meta.json and benign/*/result.json"""
import glob, json, os, re
V = os.path.dirname(os.path.dirname(os.path.abspath(__file__)))
rows = []
for mp in sorted(glob.glob(os.path.join(V, "seeded", "*", "meta.json"))):
    m = json.load(open(mp))
    for p, c in m["checks"].items():
        obl = c["failed_obligations"][:2]
        where = "; ".join("`" + o[:110] + "`" for o in obl) if obl else ("outside the verified subset (" + "; ".join(x[32:90] for x in c["outside_verified_subset"])[:90] + ") -> witness search" if c["outside_verified_subset"] else "-")
        where = " ".join(where.split())
        rows.append(f"| {m['id']} | {p} | {m['title'][:90].replace('|', '/')} | {', '.join(os.path.basename(f) for f in m['files_changed'])} | {c['verdict']} | {where} | {'yes' if c['failing_input_replayed_on_real_code'] else 'no'} | {c.get('wall_s')} |")
brows = []
for rp in sorted(glob.glob(os.path.join(V, "benign", "*", "result.json"))):
    try:
        r = json.load(open(rp))
    except Exception:
        continue
    readme = os.path.join(os.path.dirname(rp), "README.md")
    title = ""
    if os.path.exists(readme):
        for l in open(readme).read().splitlines():
            if l.strip() and not l.startswith("#"):
                title = l.strip()[:110]; break
    for p, c in r.get("checks", {}).items():
        out = {0: "held (exit 0)", 1: "FALSE ALARM (exit 1)", 3: "undecided (exit 3)"}.get(c["exit"], f"exit {c['exit']}")
        why = "; ".join(l.split(":", 1)[1].strip()[:120] for l in c["lines"] if l.startswith("ENGINE"))[:200]
        brows.append(f"| {r['id']} | {p} | {title.replace('|', '/')} | {r.get('tests', '')[:28]} | {out} | {why} |")
txt = ["### 11.7 Seeded changes: which check catches which change", "",
       "Property-breaking changes written by sub-agents that saw only the property text and a scratch worktree (round k: suffix `-k`, ten rounds); each confirmed in a scratch worktree",
       "(demo passes on the unchanged tree, fails with the change; suite unchanged at 681 passed + the one sample test that always fails here) and then checked with",
       "`PAMS_REPO=<scratch> ./check <property> --tier quick`. `replayed` = the check replayed a failing input on the real (changed) code; otherwise the VIOLATION line ends with `no-failing-input-found`.",
       "Regenerate with `python3 tools/gen_meta.py && python3 tools/gen_catch_table.py`.", "",
       "| change | property | what | file | verdict | first failed obligations | replayed | s |", "|---|---|---|---|---|---|---|---|"] + rows + ["",
       "Behaviour-preserving changes (`benign/`, same protocol, written to be equivalent for all inputs): expected `held`, or `undecided` when the change leaves the verified subset; `FALSE ALARM` rows are defects of the machinery.", "",
       "| change | property | what | suite | outcome | engine message |", "|---|---|---|---|---|---|"] + brows + [""]
p = os.path.join(V, "DESIGN.md")
s = open(p).read()
block = "\n".join(txt)
if "### 11.7 Seeded changes" in s:
    a = s.index("### 11.7 Seeded changes"); b = s.index("## Appendix A")
    s = s[:a] + block + "\n" + s[b:]
else:
    b = s.index("## Appendix A")
    s = s[:b] + block + "\n" + s[b:]
open(p, "w").write(s)
print(len(rows), "seeded rows,", len(brows), "benign rows")
