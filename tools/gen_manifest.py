"""regenerates MANIFEST.json from specs/props.py (run: python3-vt tools/gen_manifest.py)"""
import json, os, sys
sys.path.insert(0, os.path.dirname(os.path.dirname(os.path.abspath(__file__))))
from specs import props as P
ALL = [f"C{i:02d}" for i in range(1, 21)]
base_cmd = json.load(open("/root/.vp/BASELINE.json"))["cmd"]
man = {
    "version": 1,
    "setup_cmd": "true",
    "hooks": {"guard": "PAMS_VERIF", "enable": "no source hooks: contracts are sidecar files under /verif/specs; run-time contract monitors are wrappers installed from /verif/replay/monitors.py by the replay/witness-search processes (PAMS_VERIF=1 in their environment); /repo is not instrumented",
              "baseline_off_cmd": base_cmd, "source_commits": [], "add_only": True},
    "engines": [{"name": "pyvc", "path": "pyvc/", "serves_properties": sorted(P.PROPS), "kind_free_text": "AST->SMT verification-condition generator (contracts, loop invariants, frames, ghost state) over the real pams source, discharged by z3 5.1 with cvc5 1.0.3 as second back end; concrete replay of counterexamples under /venv/bin/python"}],
    "checks": [], "not_applicable": [],
    "notes": "Contract-based deductive verification; see DESIGN.md. Exit 0 held / 1 VIOLATION / 3 ENGINE-ERROR.",
}
for pid in ALL:
    if pid in P.PROPS:
        p = P.PROPS[pid]
        man["checks"].append({
            "property_id": pid,
            "quick_cmd": f"./check {pid} --tier quick",
            "thorough_cmd": f"./check {pid} --tier thorough",
            "evidence_file": f"evidence/{pid}.json",
            "replay_cmd_template": "./check --replay {path}",
            "engine": "pyvc",
            "level_claimed": {"category": p["level"], "text": p["level_text"], "design_ref": p.get("design_ref", "DESIGN.md section 4 " + pid)},
            "level_note": p["level_note"],
            "technique": p.get("technique", "contracts on the real functions; VCs generated from the AST, discharged by z3/cvc5"),
        })
    else:
        man["not_applicable"].append({"property_id": pid, "reason": P.NOT_CLAIMED.get(pid, "not claimed")})
json.dump(man, open(os.path.join(os.path.dirname(os.path.dirname(os.path.abspath(__file__))), "MANIFEST.json"), "w"), indent=1)
print("checks:", [c["property_id"] for c in man["checks"]], "not_applicable:", [n["property_id"] for n in man["not_applicable"]])
