"""verify a seeded change and run checks against it:
   python3 tools/try_mutant.py <seeded-id> <source-dir-with-patch.diff-and-demo.py> <PROP> [<PROP>...]
 - creates a scratch worktree of /repo (HEAD) under /tmp, confirms demo.py passes there, applies the patch, confirms demo.py fails and the test suite result is unchanged,
 - runs ./check <PROP> with PAMS_REPO=<scratch> for each property, records what was reported, removes the worktree."""
import json, os, shutil, subprocess, sys, tempfile, time
sid, srcdir, props = sys.argv[1], os.path.abspath(sys.argv[2]), sys.argv[3:]
V = os.environ.get("VERIF_CODE", "/verif")      # a frozen copy of the machinery may be used so that edits made meanwhile do not leak into a batch
wt = tempfile.mkdtemp(prefix="pams_seed_")
os.rmdir(wt)
def sh(cmd, **kw):
    return subprocess.run(cmd, shell=True, capture_output=True, text=True, **kw)
res = {"id": sid, "props": props}
try:
    r = sh(f"git -C /repo worktree add -q --detach {wt} HEAD"); assert r.returncode == 0, r.stderr
    env = dict(os.environ); env["PYTHONPATH"] = wt
    demo = os.path.join(srcdir, "demo.py")
    a = subprocess.run(["/venv/bin/python", demo], capture_output=True, text=True, env=env, cwd=wt, timeout=1800)
    res["demo_clean_exit"] = a.returncode
    r = sh(f"git -C {wt} apply {os.path.join(srcdir, 'patch.diff')}"); res["patch_applies"] = r.returncode == 0
    if r.returncode != 0:
        res["apply_error"] = r.stderr[-300:]
    b = subprocess.run(["/venv/bin/python", demo], capture_output=True, text=True, env=env, cwd=wt, timeout=1800)
    res["demo_mutant_exit"] = b.returncode; res["demo_mutant_out"] = (b.stdout + b.stderr)[-400:]
    t = subprocess.run(["/venv/bin/python", "-m", "pytest", "-q", "-p", "no:cacheprovider", "--timeout=900"], capture_output=True, text=True, env=env, cwd=wt, timeout=3600)
    res["tests"] = t.stdout.strip().splitlines()[-1] if t.stdout.strip() else t.stderr[-200:]
    res["checks"] = {}
    for p in props:
        e2 = dict(os.environ); e2["PAMS_REPO"] = wt
        t0 = time.time()
        c = subprocess.run(["./check", p, "--tier", "quick"], capture_output=True, text=True, env=e2, cwd=V, timeout=7200)
        lines = [l for l in c.stdout.splitlines() if l.startswith(("VIOLATION", "ENGINE-ERROR", "KNOWN"))]
        obls = []
        for l in lines:
            if l.startswith("VIOLATION") and "replay=" in l:
                rp = l.split("replay=")[1].split()[0]
                try:
                    rec = json.load(open(rp)); obls.append({"obligation": rec["obligation"], "witness_found": bool((rec.get("witness") or {}).get("found")), "task": rec.get("task")})
                except Exception:
                    pass
        res["checks"][p] = {"exit": c.returncode, "wall_s": round(time.time() - t0), "lines": [l[:200] for l in lines][:12], "violations": obls[:12]}
finally:
    sh(f"git -C /repo worktree remove --force {wt}")
    shutil.rmtree(wt, ignore_errors=True)
print(json.dumps(res, indent=1))
