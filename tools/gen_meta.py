"""write seeded/<id>/meta.json from the confirmation record (result.json, written by tools/try_mutant.py) and the README of the change:
   python3 tools/gen_meta.py            -- all seeded/* directories that have a result.json"""
import glob, json, os, re
V = os.path.dirname(os.path.dirname(os.path.abspath(__file__)))


def needs(readme):
    """the paragraph(s) of the README that say what the change needs to manifest"""
    paras = re.split(r"\n\s*\n", readme)
    hit = [p for p in paras if re.search(r"manifest|^\*\*Needs|^Needs|Needed", p, re.I | re.M)]
    hit = [p for p in hit if not p.lstrip().startswith("#")]
    return " ".join(" ".join(h.split()) for h in hit[:2])[:1800] if hit else ""


for d in sorted(glob.glob(os.path.join(V, "seeded", "*"))):
    rp = os.path.join(d, "result.json")
    if not os.path.exists(rp):
        continue
    try:
        r = json.load(open(rp))
    except Exception:      # a run that is still in progress
        continue
    readme = open(os.path.join(d, "README.md")).read() if os.path.exists(os.path.join(d, "README.md")) else ""
    title = readme.splitlines()[0].lstrip("# ").strip() if readme else ""
    files = re.findall(r"^\+\+\+ b/(\S+)", open(os.path.join(d, "patch.diff")).read(), re.M)
    confirmed = r.get("demo_clean_exit") == 0 and r.get("demo_mutant_exit") == 1 and r.get("patch_applies") and str(r.get("tests", "")).startswith("1 failed, 681 passed")
    checks = {}
    for p, c in r.get("checks", {}).items():
        vs = c.get("violations", [])
        named = [v for v in vs if not v["obligation"].startswith("(engine could not translate")]
        checks[p] = {"exit": c["exit"], "wall_s": c.get("wall_s"), "verdict": "violation reported" if c["exit"] == 1 else ("undecided (engine error)" if c["exit"] == 3 else "not detected"),
                     "failed_obligations": [v["obligation"] for v in named][:8],
                     "outside_verified_subset": [v["obligation"] for v in vs if v not in named][:3],
                     "failing_input_replayed_on_real_code": any(v.get("witness_found") for v in vs)}
    meta = {"id": r["id"], "property": r["props"], "title": title, "files_changed": files,
            "needs_to_manifest": needs(readme),
            "written_by": "sub-agent given only the property text and a scratch git worktree of /repo",
            "confirmed": bool(confirmed),
            "what_was_run": ["scratch worktree of /repo HEAD: `python demo.py` -> exit %s" % r.get("demo_clean_exit"),
                             "`git apply patch.diff`: %s" % ("ok" if r.get("patch_applies") else "FAILED"),
                             "`python demo.py` with the change -> exit %s" % r.get("demo_mutant_exit"),
                             "`python -m pytest -q` with the change -> %s (unchanged tree: 1 failed [tests/samples/test_all.py], 681 passed)" % r.get("tests"),
                             "`PAMS_REPO=<scratch> ./check <property> --tier quick` (same effect as `git -C /repo apply`, run, `git -C /repo checkout -- .`)",
                             "scratch worktree removed"],
            "checks": checks}
    json.dump(meta, open(os.path.join(d, "meta.json"), "w"), indent=1)
    print(r["id"], "confirmed" if confirmed else "NOT CONFIRMED", {p: c["verdict"] for p, c in checks.items()})
