"""run a command against a scratch copy of /repo/pams with one textual edit:
   python3 tools/with_mutant.py <relfile> <old> <new> [--count N] -- cmd...     (sets PAMS_REPO; the copy is removed afterwards)"""
import os, shutil, subprocess, sys, tempfile
args = sys.argv[1:]
i = args.index("--")
spec, cmd = args[:i], args[i + 1:]
rel, old, new = spec[0], spec[1], spec[2]
d = tempfile.mkdtemp(prefix="pams_mut_")
try:
    shutil.copytree("/repo/pams", os.path.join(d, "pams"))
    p = os.path.join(d, rel)
    s = open(p).read()
    old = old.encode().decode("unicode_escape"); new = new.encode().decode("unicode_escape")
    if old not in s:
        print("MUTANT-ERROR: pattern not found"); sys.exit(9)
    s = s.replace(old, new) if "--all" in spec else s.replace(old, new, 1)
    open(p, "w").write(s)
    env = dict(os.environ); env["PAMS_REPO"] = d
    sys.exit(subprocess.run(cmd, env=env).returncode)
finally:
    shutil.rmtree(d, ignore_errors=True)
