"""regenerate DESIGN.md section 11.0 (as-built numbers per property) from evidence/*.json and specs/props.py:  python3-vt tools/gen_summary.py"""
import glob, json, os, sys
V = os.path.dirname(os.path.dirname(os.path.abspath(__file__)))
sys.path.insert(0, V)
from specs.props import PROPS      # noqa: E402
rows = []
tot = {"obl": 0, "fn": set(), "t": 0.0}
for pid in sorted(PROPS):
    ep = os.path.join(V, "evidence", pid + ".json")
    if not os.path.exists(ep):
        continue
    e = json.load(open(ep)); c = e["coverage"]
    fns = [f["function"] for f in c.get("functions_under_contract", [])]
    tot["obl"] += c["obligations"]; tot["fn"].update(fns); tot["t"] += e.get("wall_s", 0)
    be = ", ".join(f"{k}: {v}" for k, v in sorted(c.get("backends", {}).items()))
    bs = "; ".join(b.get("name", "")[:70] for b in c.get("bounded_standins", [])) or "-"
    kf = "; ".join(k if isinstance(k, str) else k.get("what", str(k)) for k in c.get("known_findings_seen", []))[:80] or "-"
    rows.append(f"| {pid} | {e['level']} | {len(c.get('tasks', {}))} | {len(fns)} | {c['discharged']}/{c['obligations']} | {c['canaries']['failed_as_expected']}/{c['canaries']['expected_to_fail']} | {be} | {bs} | {kf} | {e.get('wall_s')} |")
txt = ["### 11.0 As-built numbers (quick tier, generated from `evidence/*.json` by `tools/gen_summary.py`)", "",
       "`tasks` = contract tasks run for the property (its own and the ones it depends on); `functions` = functions of pams executed symbolically under contract in those tasks;",
       "`obligations` = discharged / generated from the current source; `canaries` = obligations that must NOT be provable (vacuity guards) and were not; bounded stand-ins are never counted as proved.", "",
       "| id | level | tasks | functions | obligations | canaries | back ends | bounded stand-ins | known findings | wall s |", "|---|---|---|---|---|---|---|---|---|---|"] + rows + ["",
       f"All properties together: {tot['obl']} obligations per quick run (tasks shared between properties are re-run per property), {len(tot['fn'])} distinct functions of pams under contract, "
       f"{round(tot['t'])} s wall on 16 cores.", ""]
p = os.path.join(V, "DESIGN.md")
s = open(p).read()
block = "\n".join(txt)
if "### 11.0 As-built numbers" in s:
    a = s.index("### 11.0 As-built numbers"); b = s.index("### 11.1 What exists")
    s = s[:a] + block + "\n" + s[b:]
else:
    b = s.index("### 11.1 What exists")
    s = s[:b] + block + "\n" + s[b:]
open(p, "w").write(s)
print(len(rows), "rows")
