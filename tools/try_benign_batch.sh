#!/bin/sh
# usage: tools/try_benign_batch.sh <id>:<PROP> ...   -> /verif/benign/<id>/result.json
cd /verif || exit 3
for spec in "$@"; do
  id=${spec%%:*}; props=$(echo ${spec#*:} | tr ',' ' ')
  python3 tools/try_benign.py $id benign/$id $props > benign/$id/result.json 2> benign/$id/result.err
  python3 - <<PY
import json
try:
    r=json.load(open('benign/$id/result.json'))
    print(r['id'], 'applies', r['patch_applies'], r['tests'])
    for p,c in r['checks'].items(): print('  ',p,'exit',c['exit'],c['wall_s'],'s', [(v['obligation'][:110], v['witness_found'], v['verdict']) for v in c['violations']][:4], [l[:160] for l in c['lines'] if l.startswith('ENGINE')][:2])
except Exception as e: print('$id', 'ERR', e)
PY
done
