"""run checks against a behaviour-preserving change: python3 tools/try_benign.py <id> <dir-with-patch.diff> <PROP> [<PROP>...]
scratch worktree of /repo HEAD, apply, confirm the suite result is the baseline, run ./check <PROP> with PAMS_REPO=<scratch>, remove the worktree.
Expected: exit 0 (still proved) or 3 (left the verified subset: undecided); exit 1 is a false alarm."""
import json, os, shutil, subprocess, sys, tempfile, time
sid, srcdir, props = sys.argv[1], os.path.abspath(sys.argv[2]), sys.argv[3:]
V = os.environ.get("VERIF_CODE", "/verif")      # a frozen copy of the machinery may be used so that edits made meanwhile do not leak into a batch
wt = tempfile.mkdtemp(prefix="pams_benign_"); os.rmdir(wt)
def sh(cmd, **kw):
    return subprocess.run(cmd, shell=True, capture_output=True, text=True, **kw)
res = {"id": sid, "props": props}
try:
    r = sh(f"git -C /repo worktree add -q --detach {wt} HEAD"); assert r.returncode == 0, r.stderr
    r = sh(f"git -C {wt} apply {os.path.join(srcdir, 'patch.diff')}"); res["patch_applies"] = r.returncode == 0
    env = dict(os.environ); env["PYTHONPATH"] = wt
    t = subprocess.run(["/venv/bin/python", "-m", "pytest", "-q", "-p", "no:cacheprovider", "--timeout=900"], capture_output=True, text=True, env=env, cwd=wt, timeout=3600)
    res["tests"] = t.stdout.strip().splitlines()[-1] if t.stdout.strip() else t.stderr[-200:]
    res["checks"] = {}
    for p in props:
        e2 = dict(os.environ); e2["PAMS_REPO"] = wt
        t0 = time.time()
        c = subprocess.run(["./check", p, "--tier", "quick"], capture_output=True, text=True, env=e2, cwd=V, timeout=7200)
        lines = [l for l in c.stdout.splitlines() if l.startswith(("VIOLATION", "ENGINE-ERROR", "KNOWN"))]
        obls = []
        for l in lines:
            if l.startswith("VIOLATION") and "replay=" in l:
                rp = l.split("replay=")[1].split()[0]
                try:
                    rec = json.load(open(rp)); obls.append({"obligation": rec["obligation"], "witness_found": bool((rec.get("witness") or {}).get("found")), "verdict": rec.get("verdict"), "reason": str((rec.get("solver") or {}).get("reason"))[:200]})
                except Exception:
                    pass
        res["checks"][p] = {"exit": c.returncode, "wall_s": round(time.time() - t0), "lines": [l[:300] for l in lines][:12], "violations": obls[:12]}
finally:
    sh(f"git -C /repo worktree remove --force {wt}")
    shutil.rmtree(wt, ignore_errors=True)
print(json.dumps(res, indent=1))
